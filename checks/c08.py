"""C08 — accounting-record files (utmp/wtmp/btmp, lastlog, acct/pacct of every platform
layout): every non-null record once, in time order, equal times in file order; each printed
line shows that record's own field values and nothing else.

A. Coq: Props/C08.v — the reader keyed by (time value, file offset) = stable sort by time of the
   non-null in-window records for ALL inputs; the reader keyed by the time value alone is
   refuted (regression witness of the defect repaired by commit deb9a25f); layout-table
   obligations over the table regenerated from the compiled constants.
B. FixedStructReader in-process (harness c08: the loop of exec_fixedstructprocessor) vs the
   Coq MODEL records_out_K2 on the same time-value lists; on small files additionally through
   the regenerated layout row (decode_tv on the file bytes).
   FixedStruct::as_bytes vs Model.RecordRender (cursor model, declarative text, parse_items) on
   the records of the case files and on boundary / random entries of every layout;
   FixedStruct::score_fixedstruct vs Model.LayoutDetect.score_entry on those entries, on
   misaligned readings and on all-0x00 / all-0xFF entries; FixedStructReader::new (chosen layout
   and high score, repeated) and score_file per candidate vs Model.LayoutDetect.score_file in
   the code's candidate order.
C. the real s4 binary on synthesised files vs the Coq SPEC (stable sort of the non-null
   in-window records) — order, count, and every printed line must show its own record's
   field values.  Files are synthesised from the FROZEN reference layouts.
"""
import json, os, re, sys
from concurrent.futures import ThreadPoolExecutor
import vlib
from vlib import CACHE
import c08_util as U

PROP_FILE = "Props/C08.v"
T0 = 1700000000
UNREACHABLE = set()       # was {"Fs_Netbsd_x8664_Lastlogx"} (layout never offered by filesz_to_types) until fix commit dd987c74
DT_FMT = "%s.%6f|"


# ----------------------------------------------------------------------------- generation
def gen_times(rng, lay, n, ordering):
    has_us = bool(lay["usec_len"])

    def us():
        return rng.randrange(0, 1000000) if has_us else 0
    if ordering == "all_equal":
        t = (T0 + rng.randrange(0, 10 ** 6), us())
        return [t] * n
    if ordering == "sec_dups":      # few distinct seconds; sub-second part (if any) varies or repeats
        k = max(1, n // 6)
        secs = [T0 + rng.randrange(0, 50) for _ in range(k)]
        small = [0, 1, 999999, 500000]
        return [(rng.choice(secs), (rng.choice(small) if has_us else 0)) for _ in range(n)]
    base = sorted((T0 + rng.randrange(0, 3 * n + 5), us()) for _ in range(n))
    if ordering == "sorted":
        return base
    if ordering == "reversed":
        return base[::-1]
    if ordering == "shuffled":
        rng.shuffle(base)
        return base
    raise ValueError(ordering)


def gen_window(rng, tvs_nonnull, has_us):
    """(lo, hi, description); bounds mostly exactly on record times"""
    r = rng.random()
    if not tvs_nonnull or r < 0.25:
        return None, None, "none"
    ts = sorted(set(tvs_nonnull))
    a, b = sorted((rng.choice(ts), rng.choice(ts)))
    if r < 0.45:
        return a, b, "both_on_records"
    if r < 0.55:
        return a, None, "after_on_record"
    if r < 0.65:
        return None, b, "before_on_record"
    if r < 0.72:
        return a, a, "single_instant"
    if r < 0.80:      # one microsecond inside / outside a record time
        a2 = (a[0], a[1] + 1) if a[1] < 999999 else (a[0] + 1, 0)
        b2 = (b[0], b[1] - 1) if b[1] > 0 else (b[0] - 1, 999999)
        if a2 <= b2:
            return a2, b2, "one_us_inside"
        return a, b, "both_on_records"
    if r < 0.88:
        return (ts[-1][0] + 1, 0), None, "after_all"
    if r < 0.94:
        return None, (ts[0][0] - 1, 0), "before_all"
    return (ts[0][0] - 5, 0), (ts[-1][0] + 5, 0), "around_all"


def gen_cases(rng, lays, per_layout, quick):
    orderings = ["sorted", "reversed", "shuffled", "all_equal", "sec_dups"]
    counts_small = [0, 1, 2, 3, 4, 5, 6, 7, 8, 9, 10, 12, 16, 25]
    counts_big = [33, 50, 64, 100, 127, 128, 200]
    cases = []
    for name, lay in lays.items():
        for k in range(per_layout):
            ordering = orderings[k % len(orderings)]
            if k < len(orderings):
                n = [4, 5, 6, 4, 8][k]
            else:
                n = rng.choice(counts_small if rng.random() < (0.75 if quick else 0.6) else counts_big)
            tvs = gen_times(rng, lay, n, ordering)
            pnull = rng.choice([0.0, 0.0, 0.15, 0.4])
            recs = []
            for t in tvs:
                if rng.random() < pnull:
                    recs.append(((0, 0), "zero" if rng.random() < 0.8 else "zerotime"))
                else:
                    recs.append((t, None))
            nn = [t for t, nk in recs if nk is None]
            lo, hi, wdesc = gen_window(rng, nn, bool(lay["usec_len"]))
            if rng.random() < 0.25:          # invalid (all-0xFF) entries interleaved
                for j in range(len(recs)):
                    if rng.random() < 0.12:
                        recs[j] = (U.invalid_tv(lay), "ff")
            strmode = rng.choice(["normal"] * 6 + U.STR_MODES[1:])
            if rng.random() < 0.3:
                strmode += "+real%d" % rng.randrange(8)
            cases.append(dict(layout=name, ordering=ordering, recs=recs, lo=lo, hi=hi, window=wdesc, fname=rng.choice(U.layout_names(name)),
                              strmode=strmode,
                              bs_bin=rng.choice([64, 65, 128, 300, 512, 4096, 65536]),
                              bs_proc=rng.choice([1, 7, 16, 33, 64, 300, 512, 4096, 65536]) if n <= 40 else rng.choice([64, 300, 512, 4096, 65536]),
                              container=rng.choice(["plain", "plain", "plain", "gz", "xz", "tar"])))
    return cases


def boundary_cases(rng, lays):
    """both boundary classes, every run, every layout:
    (1) C-string fields filled to width-1 / to their full width without a NUL (all at once, one
        at a time rotating over the fields, mixed);
    (2) all-0xFF entries at the start / middle / end of the file, one and several, consecutive,
        with and without -a/-b bounds on record times; plain, .xz and .tar."""
    cases = []
    conts = ["plain", "xz", "tar"]
    k = 0
    for name, lay in lays.items():
        has_us = bool(lay["usec_len"])

        def times(n):
            return [(T0 + rng.randrange(0, 4), rng.choice([0, 1, 999999]) if has_us else 0) for _ in range(n)]
        # (1) string widths
        for strmode in U.STR_MODES[1:]:
            n = rng.choice([3, 4, 5, 6, 8, 9])
            recs = [(t, None) for t in times(n)]
            lo, hi, w = gen_window(rng, [t for t, _ in recs], has_us) if strmode == "mixed" else (None, None, "none")
            cases.append(dict(layout=name, ordering="strings_" + strmode, recs=recs, lo=lo, hi=hi, window=w, strmode=strmode,
                              bs_bin=rng.choice([64, 300, 65536]), bs_proc=rng.choice([7, 64, 4096]), container=conts[k % 3]))
            k += 1
        # (1b) values outside plain ASCII strings: sockaddr bytes (NetBSD i386 layouts), UTF-8 names
        exts = ["utf8"] if any(f["kind"] == "c" and ("user" in f["label"] or "name" in f["label"] or "host" in f["label"]) for f in lay["fields"]) else []
        if any(f["kind"] == "b" for f in lay["fields"]):
            exts += ["ss", "ss", "ss10"]
        for ext in exts:
            n = rng.choice([3, 4, 6])
            recs = [(t, None) for t in times(n)]
            cases.append(dict(layout=name, ordering="values_" + ext, recs=recs, lo=None, hi=None, window="none", strmode="normal+" + ext,
                              bs_bin=rng.choice([64, 65536]), bs_proc=rng.choice([64, 4096]), container=conts[k % 3]))
            k += 1
        # (1c) real-world file names (the name hints which layouts get the bonus) x record counts that make
        #      another layout's entry size divide the file size x first records of every ut_type with
        #      real-world user names / 4-character ids
        counts_hint, counts_other = set(), set()
        for fname in U.layout_names(name):
            for oname, o in lays.items():
                if o["size"] == lay["size"]:
                    continue
                import math
                n0 = o["size"] // math.gcd(o["size"], lay["size"])
                if n0 <= 70:
                    # the other layout receives the name bonus under this file name: always tried
                    (counts_hint if U.NAME_KIND[fname] == o["kind"] else counts_other).add((fname, n0))
        picks = sorted(counts_hint) + rng.sample(sorted(counts_other), min(2, len(counts_other)))
        for fname, n0 in picks:
            n = n0 * rng.choice([1, 1, 2]) if n0 * 2 <= 70 else n0
            recs = [(t, None) for t in times(n)]
            cases.append(dict(layout=name, ordering="names_%s_x%d" % (fname, n0), recs=recs, lo=None, hi=None, window="none", fname=fname,
                              strmode="normal+real%d" % (k % 8), bs_bin=rng.choice([64, 65536]), bs_proc=rng.choice([64, 4096]), container=conts[k % 3]))
            k += 1
        # (2) invalid entries
        for where in ("start", "middle", "end", "start_middle_end", "two_consecutive_start", "all_but_one", "with_nulls"):
            n = rng.choice([5, 6, 7, 9, 11])
            recs = [(t, None) for t in times(n)]
            pos = {"start": [0], "middle": [n // 2], "end": [n - 1], "start_middle_end": [0, n // 2, n - 1],
                   "two_consecutive_start": [0, 1], "all_but_one": [j for j in range(n) if j != n // 2],
                   "with_nulls": [1, n - 2]}[where]
            for j in pos:
                recs[j] = (U.invalid_tv(lay), "ff")
            if where == "with_nulls":
                recs[0] = ((0, 0), "zero")
                recs[n // 2] = ((0, 0), "zerotime")
            nn = [t for t, nk in recs if nk is None]
            for wk in ((None, None, "none"),) + ((gen_window(rng, nn, has_us),) if where in ("start", "middle", "end", "start_middle_end") else ()):
                lo, hi, w = wk
                cases.append(dict(layout=name, ordering="invalid_" + where, recs=list(recs), lo=lo, hi=hi, window=w,
                                  strmode=rng.choice(["normal", "normal", "full_all", "mixed"]),
                                  bs_bin=rng.choice([64, 128, 65536]), bs_proc=rng.choice([1, 33, 512, 65536]), container=conts[k % 3]))
                k += 1
    return cases


def corpus_cases(lays):
    out = []
    p = os.path.join(vlib.ROOT, "corpus", "C08", "cases.json")
    if os.path.exists(p):
        for c in json.load(open(p)):
            c["recs"] = [((t[0], t[1]), nk) for t, nk in c["recs"]]
            c["lo"] = tuple(c["lo"]) if c["lo"] else None
            c["hi"] = tuple(c["hi"]) if c["hi"] else None
            c.setdefault("strmode", "normal")
            if c["layout"] in lays:
                out.append(c)
    return out


# ----------------------------------------------------------------------------- coq encoding
def cq_tv(t):
    return "((%d)%%Z, (%d)%%Z)" % (t[0], t[1])


def cq_opt(t):
    return "None" if t is None else "(Some %s)" % cq_tv(t)


def case_tvs(lay, c):
    """the time values the entries' bytes decode to (null: (0,0); all-0xFF: -1 / the maximum)"""
    return [(t if nk is None else (U.invalid_tv(lay) if nk == "ff" else (0, 0))) for t, nk in c["recs"]]


def bad_fos(lay, c):
    return [k * lay["size"] for k, (t, nk) in enumerate(c["recs"]) if nk == "ff"]


def cq_case(lay, c, impl_fos):
    return "(%d%%N, %s, %s, [%s], [%s], [%s])" % (lay["size"], cq_opt(c["lo"]), cq_opt(c["hi"]),
                                                 "; ".join(cq_tv(t) for t in case_tvs(lay, c)),
                                                 "; ".join("%d%%N" % f for f in bad_fos(lay, c)),
                                                 "; ".join("%d%%N" % f for f in impl_fos))


HDR = (vlib.COQ_PRINT_HDR + "From Coq Require Import String List NArith ZArith.\nImport ListNotations.\n"
       "From S4.Spec Require Import RecordsSpec.\nFrom S4.Corr Require Import C08.\nOpen Scope string_scope.\n")


CASE_TYPES = {"model_bad": "list case08", "spec_bad": "list case08",
              "bytes_bad": "list (string * string * option tv * option tv * list N * list N)",
              "render_bad": "list (string * string * string)",
              "score_bad": "list (string * Z * string * option Z)",
              "detect_bad": "list (N * list string * list (option Z) * string * Z)"}


def coq_eval(ctx, subdir, fn, rows_by_index, what):
    """rows_by_index: list of (case index, coq row text). Returns dict case index -> code for
    disagreeing cases, or None when the evaluation itself failed."""
    if not rows_by_index:
        return {}
    shards = vlib.shard(rows_by_index, max(1, min(vlib.NCPU, len(rows_by_index) // 40)))
    texts = []
    for sh_ in shards:
        texts.append(HDR + "Definition cases : %s := [\n%s\n].\nEval vm_compute in (%s cases).\n" % (CASE_TYPES[fn], ";\n".join(r for _, r in sh_), fn))
    res = vlib.coq_eval_shards(os.path.join(CACHE, "cases", "C08", subdir), texts)
    bad = {}
    for sh_, (rc, out) in zip(shards, res):
        pairs = vlib.parse_eval_pairs(out) if rc == 0 else None
        if pairs is None:
            ctx.obligation_broken(what, "coqc on generated cases (%s)" % fn, out)
            return None
        for k, code in pairs:
            bad[sh_[k][0]] = code
    return bad


# ----------------------------------------------------------------------------- rendering / scoring / detection ties
def gen_tables():
    return json.load(open(os.path.join(vlib.COQ, "Gen", "fixedstruct_tables.json")))


def f32_int_bytes(rng):
    import struct
    return struct.pack("<f", float(rng.choice([0, 1, 2, 7, 100, 65535, 1 << 20, (1 << 24) - 1, rng.randrange(0, 1 << 24)])))


def fix_f32(tab, name, e, rng):
    """the model renders only integer-valued f32 below 2^24 (format!("{}") of anything else is
    outside the modelled class): give such fields a value of the class"""
    b = bytearray(e)
    for it in tab["render"][name]:
        if it[0] == "f32":
            b[it[1]:it[1] + 4] = f32_int_bytes(rng)
    return bytes(b)


SPECIAL_BYTES = [0x27, 0x20, 0x0A, 0x7C, 0x29, 0x28, 0x2E, 0x2D, 0x30, 0x31, 0x7F, 0x80, 0xC3, 0xBC, 0xFE, 0xFF, 0x01, 0x09]


def random_entries(rng, tab, name, size, base_records, n):
    """entries of `size` bytes for the render / score ties: a written record with some fields
    overwritten by boundary values, sparse random bytes, dense random bytes, one-field-only entries"""
    fields = tab["structs"][name]["fields"]
    out = []
    for k in range(n):
        mode = k % 6
        if mode == 0 and base_records:
            e = bytearray(rng.choice(base_records))
            for _ in range(rng.randrange(1, 4)):
                p, (kind, off, sz) = rng.choice(sorted(fields.items()))
                if kind in ("c", "b"):
                    fill = rng.randrange(0, sz + 1)
                    alpha = rng.choice([SPECIAL_BYTES, list(range(0x20, 0x7F)), list(range(1, 256))])
                    e[off:off + sz] = bytes(rng.choice(alpha) for _ in range(fill)) + b"\0" * (sz - fill)
                else:
                    e[off:off + sz] = rng.choice([b"\0" * sz, b"\xff" * sz, b"\x80" + b"\0" * (sz - 1), b"\0" * (sz - 1) + b"\x80",
                                                  b"\xff" * (sz - 1) + b"\x7f", bytes(rng.randrange(256) for _ in range(sz))])
        elif mode == 1:
            e = bytearray(size)
            for _ in range(rng.randrange(1, 12)):
                e[rng.randrange(size)] = rng.choice(SPECIAL_BYTES + [rng.randrange(256)])
        elif mode == 2:
            e = bytearray(rng.randrange(256) if rng.random() < 0.7 else 0 for _ in range(size))
        elif mode == 3:       # every string full of printable bytes (no NUL inside the arrays), the rest zero
            e = bytearray(size)
            for p, (kind, off, sz) in fields.items():
                if kind in ("c", "b") and rng.random() < 0.7:
                    e[off:off + sz] = bytes(rng.randrange(0x21, 0x7F) for _ in range(sz))
        elif mode == 4:       # one field only
            e = bytearray(size)
            p, (kind, off, sz) = rng.choice(sorted(fields.items()))
            e[off:off + sz] = bytes(rng.randrange(1, 256) for _ in range(sz))
        else:                 # a plausible time and flags, random printable strings with a terminator
            e = bytearray(rng.choice(base_records)) if base_records else bytearray(size)
            for p, (kind, off, sz) in fields.items():
                if kind == "c" and sz > 1:
                    fill = rng.randrange(0, sz)
                    e[off:off + sz] = bytes(rng.randrange(0x20, 0x7F) for _ in range(fill)) + b"\0" * (sz - fill)
        if not any(e):
            e[rng.randrange(size)] = 1
        out.append(fix_f32(tab, name, bytes(e), rng))
    return out


def tie_render(ctx, tab, entries, stats, binary_triples=(), cases=()):
    """B: FixedStruct::new + as_bytes in-process vs Model.RecordRender.as_bytes on the same bytes;
    binary_triples: (layout, entry bytes, record text the s4 BINARY printed, case index) compared
    with the same Coq function"""
    lines = ["%s\t%s" % (n, e.hex()) for n, e in entries]
    outl, err = vlib.harness("c08", lines, timeout=600, args=["render"])
    if outl is None or len(outl) != len(lines):
        ctx.obligation_broken("correspondence", "harness c08 render run", err)
        return
    rows = []
    for i, ((n, e), o) in enumerate(zip(entries, outl)):
        tok = o.split(" ")
        if tok[0] == "R":
            rows.append((i, '("%s", "%s", "%s")' % (n, e.hex(), tok[1])))
        elif tok[0] == "NONE":
            stats["render_rejected_entries"] += 1        # all-0x00 / all-0xFF / time not convertible
        else:
            stats["render_mismatch_model"] += 1
            if stats["render_mismatch_model"] == 1:
                ctx.obligation_broken("correspondence", "FixedStruct::as_bytes (in-process) returned Fail/panicked within the print buffer",
                                      json.dumps(dict(layout=n, entry=e.hex(), harness_line=o[:300])))
    stats["render_cases"] = len(rows)
    nb = len(entries)
    rows += [(nb + j, '("%s", "%s", "%s")' % (n, e.hex(), t.hex())) for j, (n, e, t, i) in enumerate(binary_triples)]
    bad = coq_eval(ctx, "render", "render_bad", rows, "correspondence")
    bad2 = {k - nb: c for k, c in (bad or {}).items() if k >= nb}
    bad = {k: c for k, c in (bad or {}).items() if k < nb}
    stats["binary_lines_mismatch_model"] = len(bad2)
    if bad2:
        j = sorted(bad2)[0]
        n, e, t, i = binary_triples[j]
        ctx.obligation_broken("correspondence", "record text printed by the s4 binary vs Model.RecordRender.render of the record's bytes",
                              json.dumps(dict(case=case_public(cases[i]), entry=e.hex(), printed=t.decode("latin-1")[:600], code=bad2[j], disagreements=len(bad2))))
    if bad:
        stats["render_mismatch_model"] += len(bad)
        i = sorted(bad)[0]
        n, e = entries[i]
        ctx.obligation_broken("correspondence", "FixedStruct::as_bytes (in-process) vs Model.RecordRender.as_bytes / render / parse_items",
                              json.dumps(dict(layout=n, entry=e.hex(), code=bad[i], implementation=outl[i][:900], disagreements=len(bad),
                                              codes="1 sequential model differs, 2 model buffer full, 3 declarative text differs, 4 parse of a clean line")))


def tie_score(ctx, tab, entries, stats):
    """B: buffer_to_fixedstructptr + FixedStruct::score_fixedstruct in-process vs Model.LayoutDetect.score_entry"""
    lines = ["%s\t%d\t%s" % (n, b, e.hex()) for n, b, e in entries]
    outl, err = vlib.harness("c08", lines, timeout=600, args=["score"])
    if outl is None or len(outl) != len(lines):
        ctx.obligation_broken("correspondence", "harness c08 score run", err)
        return
    rows = []
    for i, ((n, b, e), o) in enumerate(zip(entries, outl)):
        tok = o.split(" ")
        if tok[0] == "S":
            rows.append((i, '("%s", (%d)%%Z, "%s", Some (%d)%%Z)' % (n, b, e.hex(), int(tok[1]))))
        elif tok[0] == "NONE":
            rows.append((i, '("%s", (%d)%%Z, "%s", None)' % (n, b, e.hex())))
        else:
            ctx.obligation_broken("correspondence", "score_fixedstruct (in-process) panicked", json.dumps(dict(layout=n, entry=e.hex(), line=o[:200])))
    stats["score_cases"] = len(rows)
    bad = coq_eval(ctx, "score", "score_bad", rows, "correspondence")
    if bad:
        over = [i for i, c in bad.items() if c == 5]
        real = sorted(i for i, c in bad.items() if c != 5)
        stats["score_overread_not_compared"] = len(over)
        stats["score_mismatch_model"] = len(real)
        if real:
            i = real[0]
            n, b, e = entries[i]
            ctx.obligation_broken("correspondence", "FixedStruct::score_fixedstruct (in-process) vs Model.LayoutDetect.score_entry",
                                  json.dumps(dict(layout=n, bonus=b, entry=e.hex(), code=bad[i], implementation=outl[i], disagreements=len(real))))


def candidates(tab, lays, kind, filesz):
    """the candidate list of filesz_to_types in the order of the regenerated try-all list (the
    order Model.LayoutDetect.filesz_candidates uses)"""
    kidx = U.KINDS.index(kind)
    sizes = {l["name"]: l["size"] for l in tab["layouts"]}
    bon = set((k, t) for k, t in tab["bonus"])
    return [(t, tab["score_bonus"] if (kidx, t) in bon else 0) for t in tab["try_all"] if filesz and filesz % sizes[t] == 0]


def cq_chunks(data):
    h = data.hex()
    return "[%s]" % "; ".join('"%s"' % h[i:i + 4096] for i in range(0, len(h), 4096))


def tie_detect(ctx, tab, lays, files, stats, repeat=3):
    """B: layout detection.  files: list of (path, kind, bytes, blocksz, label).  Per candidate the
    implementation's high score (FixedStructReader::score_file with that one candidate), the layout
    and score FixedStructReader::new settles on (run `repeat` times) vs Model.LayoutDetect."""
    lines, cl = [], []
    for path, kind, data, bs, label in files:
        cands = candidates(tab, lays, kind, len(data))
        cl.append(cands)
        lines.append("%s\t%d\t%d\t%s\t%d" % (path, U.KINDS.index(kind), bs, ",".join("%s:%d" % c for c in cands), repeat))
    outl, err = vlib.harness("c08", lines, timeout=900, args=["detect"])
    if outl is None or len(outl) != len(lines):
        ctx.obligation_broken("correspondence", "harness c08 detect run", err)
        return {}
    rows, chosen_all = [], {}
    for i, ((path, kind, data, bs, label), cands, o) in enumerate(zip(files, cl, outl)):
        m = re.fullmatch(r"D ?([^|]*) \|(.*)", o)
        if not m:
            ctx.obligation_broken("correspondence", "harness c08 detect output", json.dumps(dict(file=label, line=o[:300])))
            continue
        per = [x.split("=") for x in m.group(1).split(",") if x]
        runs = m.group(2).split()
        chosen_all[i] = runs
        if [p[0] for p in per] != [c[0] for c in cands] or not runs:
            ctx.obligation_broken("correspondence", "harness c08 detect output (candidates)", json.dumps(dict(file=label, line=o[:300])))
            continue
        sc = []
        okp = True
        for _, v in per:
            if v == "-":
                sc.append("None")
            elif re.fullmatch(r"-?\d+/\d+", v):
                sc.append("Some (%s)%%Z" % v.split("/")[0])
            else:
                okp = False
        if not okp:
            ctx.obligation_broken("correspondence", "score_file (one candidate) failed", json.dumps(dict(file=label, line=o[:300])))
            continue
        # each run of FixedStructReader::new is compared
        for r_ in sorted(set(runs)):
            nm, _, hs = r_.partition(":")
            if not nm.startswith("Fs_"):
                nm, hs = "", "0"
            rows.append(((i, r_), '(%d%%N, %s, [%s], "%s", (%s)%%Z)' % (U.KINDS.index(kind), cq_chunks(data), "; ".join(sc), nm, hs)))
    stats["detect_cases"] = len(files)
    stats["detect_runs_compared"] = len(rows)
    bad = coq_eval(ctx, "detect", "detect_bad", rows, "correspondence") or {}
    ties = {k: c for k, c in bad.items() if c >= 10}
    bad = {k: c for k, c in bad.items() if c < 10}
    tie_files = sorted(set(k[0] for k in ties))
    stats["detect_tie_files"] = len(tie_files)
    stats["detect_tie_files_with_both_layouts_chosen"] = sum(1 for i in tie_files if len(set(x.split(":")[0] for x in chosen_all.get(i, []))) > 1)
    if bad:
        over = [k for k, c in bad.items() if c == 0]
        real = sorted(k for k, c in bad.items() if c != 0)
        stats["detect_overread_not_compared"] = len(set(k[0] for k in over))
        stats["detect_mismatch_model"] = len(real)
        if real:
            i, r_ = real[0]
            ctx.obligation_broken("correspondence", "FixedStructReader::new / score_file (in-process) vs Model.LayoutDetect.score_file",
                                  json.dumps(dict(file=files[i][4], kind=files[i][1], size=len(files[i][2]), code=bad[real[0]], harness_line=outl[i][:600],
                                                  codes="1 candidate sets differ, 2 a candidate's high score differs, 3 unique maximum but other choice, 4 tie and choice not among the tied",
                                                  disagreements=len(real))))
    return dict(ties=tie_files, chosen=chosen_all)


# ----------------------------------------------------------------------------- runs
def write_case_files(d, lays, cases):
    for i, c in enumerate(cases):
        lay = lays[c["layout"]]
        data = U.build_file(lay, c["recs"], c.get("strmode"))
        sub = os.path.join(d, "%04d" % i)
        os.makedirs(sub, exist_ok=True)
        base = U.case_fname(lay, c)
        c["plain_path"] = os.path.join(sub, base)
        with open(c["plain_path"], "wb") as f:
            f.write(data)
        if c["container"] == "plain":
            c["bin_path"] = c["plain_path"]
        else:
            cd = os.path.join(sub, "c")
            os.makedirs(cd, exist_ok=True)
            nm, blob = U.container(data, base, c["container"])
            c["bin_path"] = os.path.join(cd, nm)
            with open(c["bin_path"], "wb") as f:
                f.write(blob)


def bound_arg(t):
    return "-" if t is None else "%d.%d" % (t[0], t[1])


def run_binary(c):
    args = ["--color", "never", "-s", "-u", "-d", DT_FMT, "--blocksz", str(c["bs_bin"])]
    if c["lo"] is not None:
        args += ["-a", U.iso(c["lo"])]
    if c["hi"] is not None:
        args += ["-b", U.iso(c["hi"])]
    args.append(c["bin_path"])
    return vlib.run_s4(args, timeout=60, env={"TZ": "UTC"})


def judge_binary(lay, c, rc, out, err):
    """returns (impl_fos or None, problems[list of str], nul_count, nlines)"""
    problems = []
    if rc == 124:
        return None, ["hang (timeout)"], 0, 0
    if rc not in (0, 1):
        problems.append("exit status %d" % rc)
    lines, nul = U.split_output(out)
    fos = []
    for ln in lines:
        m = re.match(r"^(\d+)\.(\d{6})\|:(.*)$", ln)
        if not m:
            problems.append("unparsable line %r" % ln[:120])
            continue
        body = m.group(3)
        i = U.marker_index(lay, body)
        if i is None or i >= len(c["recs"]):
            problems.append("line not attributable to a record: %r" % body[:120])
            continue
        tv, nk = c["recs"][i]
        fos.append(i * lay["size"])
        if nk is not None:
            problems.append("%s entry %d printed" % ("invalid (all-0xFF)" if nk == "ff" else "null", i))
            continue
        if (int(m.group(1)), int(m.group(2))) != tuple(tv):
            problems.append("record %d printed with instant %s.%s, stored %s" % (i, m.group(1), m.group(2), tv))
        for lab, pat in U.expected_patterns(lay, i, tv, c.get("strmode")):
            if not re.search(pat, body):
                problems.append("record %d: field %s not rendered with exactly its own value: %r" % (i, lab, body[:400]))
                break
    return fos, problems, nul, len(lines)


def gz_multiblock(lays_ref, c):
    """class of the recorded finding: a .gz container whose uncompressed size exceeds the block size
    (the gz reader streams: earlier blocks are dropped and cannot be read again, but FixedStructReader
    makes several passes and then reads entries in time order)"""
    return c["container"] == "gz" and len(c["recs"]) * lays_ref[c["layout"]]["size"] > c["bs_bin"]


def lastlog32_read_as_utmp40(c):
    """class of the recorded detection finding: a NetBSD amd64 lastlog file (32-byte entries) whose
    size is also a multiple of 40 (NetBSD amd64 utmp) and in which one of the first five non-null
    entries has a time value whose four low-order bytes are all printable ASCII: read as utmp the
    time bytes count as a plausible ut_line and that layout outscores the name bonus"""
    if c["layout"] != "Fs_Netbsd_x8664_Lastlog" or (len(c["recs"]) * 32) % 40 != 0:
        return False
    first = [t for t, nk in c["recs"] if nk != "zero"][:5]
    return any(all(0x20 <= b <= 0x7E for b in int(t[0]).to_bytes(8, "little", signed=True)[:4]) for t in first if t[0] > 0)


def utmpx_read_as_freebsd(lays_ref, c):
    """input part of the class of the second recorded detection finding: the file size is also a
    multiple of the entry size of ANOTHER layout and the string fields are filled (almost) to their
    width (the scorer rewards every printable byte, so a misaligned reading of long strings can
    outscore the right one).  The class is consulted only for failures whose symptom is a wrong
    layout reported by the implementation itself (see detection_symptom)."""
    lay = lays_ref[c["layout"]]
    fsz = len(c["recs"]) * lay["size"]
    if fsz == 0 or U.split_mode(c.get("strmode"))[0] == "normal":
        return False
    return any(o["size"] != lay["size"] and fsz % o["size"] == 0 for o in lays_ref.values())


def ss_field_with_newline(lays_ref, c):
    """class of the recorded rendering finding: a NetBSD i386 utmpx / lastlogx record whose sockaddr
    field (ut_ss / ll_ss, written raw up to its first NUL) holds a newline byte"""
    lay = lays_ref[c["layout"]]
    if not any(f["kind"] == "b" for f in lay["fields"]):
        return False
    return any("\n" in v for i in range(len(c["recs"])) for lab, v in U.field_values(lay, i, c.get("strmode")).items()
               if isinstance(v, str) and any(f["label"] == lab and f["kind"] == "b" for f in lay["fields"]))


def high_byte_in_c_char_field(lays_ref, c):
    """(evidence only) a printed c_char string field holds a byte >= 0x80: the class of the defect
    repaired by commit b0611f28 (such bytes were printed as NUL)"""
    lay = lays_ref[c["layout"]]
    return any(any(ord(ch) > 0x7F for ch in v) for i, (t, nk) in enumerate(c["recs"]) if nk is None
               for lab, v in U.field_values(lay, i, c.get("strmode")).items()
               if isinstance(v, str) and any(f["label"] == lab and f["kind"] == "c" for f in lay["fields"]))


def layout_score_tie(lays_ref, c):
    """class of the recorded detection finding: two candidate layouts of filesz_to_types reach the
    same maximal high score on this file (decided with the implementation's own scoring, one
    candidate at a time: FixedStructReader::score_file through the harness)"""
    try:
        tab = gen_tables()
        data = open(c["plain_path"], "rb").read()
        kind = U.case_kind(lays_ref[c["layout"]], c)
        cands = candidates(tab, lays_ref, kind, len(data))
        if len(cands) < 2:
            return False
        line = "%s\t%d\t%d\t%s\t0" % (c["plain_path"], U.KINDS.index(kind), 65536, ",".join("%s:%d" % x for x in cands))
        outl, _ = vlib.harness("c08", [line], timeout=120, args=["detect"])
        m = re.fullmatch(r"D ?([^|]*) \|(.*)", outl[0]) if outl else None
        if not m:
            return False
        sc = [int(x.split("=")[1].split("/")[0]) for x in m.group(1).split(",") if re.fullmatch(r"\w+=-?\d+/\d+", x)]
        return bool(sc) and max(sc) > 0 and sc.count(max(sc)) >= 2
    except Exception:
        return False


def score_read_leaves_struct(lays_ref, c):
    """class of the recorded finding score_reads_past_struct_end, on a FILE: for some candidate layout
    of filesz_to_types one of the first COUNT_FOUND_ENTRIES_MAX convertible entries has a string field
    with no NUL byte between its first byte and the end of the entry (the CStr accessor then reads the
    heap behind the Box: that candidate's score, and so possibly the chosen layout, is not determined
    by the file).  A predicate of the bytes and the frozen reference layouts only."""
    try:
        tab = gen_tables()
        data = open(c["plain_path"], "rb").read()
        for n, _b in candidates(tab, lays_ref, U.case_kind(lays_ref[c["layout"]], c), len(data)):
            lay = lays_ref[n]
            sz, found = lay["size"], 0
            for k in range(len(data) // sz):
                e = data[k * sz:(k + 1) * sz]
                if found >= tab["count_found_entries_max"]:
                    break
                if not any(e) or all(b == 0xFF for b in e):
                    continue
                found += 1
                if any(f["kind"] == "c" and 0 not in e[f["offset"]:] for f in lay["fields"]):
                    return True
        return False
    except Exception:
        return False


def detection_symptom(c, err, nlines):
    """the s4 binary itself (--summary) reports another layout than the one the file was written in,
    or reports none and prints nothing (FixedStructReader::new failed)"""
    m = re.search(rb"fixedstructtype: (Fs_\w+)", err)
    if m:
        return m.group(1).decode() != c["layout"]
    return nlines == 0


def case_public(c):
    return dict(layout=c["layout"], ordering=c["ordering"], window=c["window"], strmode=c.get("strmode", "normal"), fname=c.get("fname"),
                recs=[[list(t), nk] for t, nk in c["recs"]], lo=list(c["lo"]) if c["lo"] else None,
                hi=list(c["hi"]) if c["hi"] else None, bs_bin=c["bs_bin"], bs_proc=c["bs_proc"], container=c["container"])


def nontrivial(c):
    kept = U.spec_order(c["recs"], c["lo"], c["hi"])
    if len(kept) < 2:
        return False
    ts = [tuple(c["recs"][i][0]) for i in kept]
    tie = len(set(ts)) < len(ts)
    unordered = kept != sorted(kept)
    nulls = any(nk is not None for _, nk in c["recs"])
    onbound = (c["lo"] is not None and tuple(c["lo"]) in ts) or (c["hi"] is not None and tuple(c["hi"]) in ts)
    return tie or unordered or nulls or onbound


def new_ties(ctx, lays_ref, cases, stats, binary_triples=()):
    """the three ties of the rendering / detection models (B)"""
    quick = ctx.quick()
    rng = ctx.rng
    try:
        tab = gen_tables()
    except Exception as e:
        ctx.obligation_broken("translator", "fixedstruct_tables.json unreadable (render / score tables)", repr(e))
        return
    stats.update(render_rejected_entries=0, render_mismatch_model=0, render_cases=0, score_cases=0, score_overread_not_compared=0,
                 score_mismatch_model=0, detect_cases=0, detect_runs_compared=0, detect_tie_files=0, detect_overread_not_compared=0,
                 detect_mismatch_model=0, detect_tie_files_with_both_layouts_chosen=0)
    # entries: the records of the small case files + per layout boundary / random entries
    per_layout = {n: [] for n in lays_ref}
    for c in cases:
        lay = lays_ref[c["layout"]]
        if len(c["recs"]) > (12 if quick else 40) or len(per_layout[c["layout"]]) > (30 if quick else 600):
            continue
        data = open(c["plain_path"], "rb").read()
        for k, (t, nk) in enumerate(c["recs"]):
            if nk is None:
                per_layout[c["layout"]].append(data[k * lay["size"]:(k + 1) * lay["size"]])
    rentries, sentries = [], []
    for n, lay in lays_ref.items():
        rng.shuffle(per_layout[n])
        base = per_layout[n][:(16 if quick else 400)]
        rnd = random_entries(rng, tab, n, lay["size"], base[:8], 18 if quick else 300)
        for e in base:
            rentries.append((n, fix_f32(tab, n, e, rng)))
            sentries.append((n, rng.choice([0, tab["score_bonus"]]), e))
        for e in rnd:
            rentries.append((n, e))
            sentries.append((n, rng.choice([0, tab["score_bonus"], -3]), e))
        sentries.append((n, tab["score_bonus"], b"\0" * lay["size"]))
        sentries.append((n, 0, b"\xff" * lay["size"]))
    # misaligned readings: the first entries of small case files read with every other candidate layout
    nmis = 0
    for c in cases:
        data = open(c["plain_path"], "rb").read()
        if not data or len(data) > 8000 or nmis > (150 if quick else 4000):
            continue
        for n, b in candidates(tab, lays_ref, U.case_kind(lays_ref[c["layout"]], c), len(data)):
            if n != c["layout"]:
                sz = lays_ref[n]["size"]
                for k in range(min(2, len(data) // sz)):
                    sentries.append((n, b, data[k * sz:(k + 1) * sz]))
                    nmis += 1
    stats["score_misaligned_entries"] = nmis
    tie_render(ctx, tab, rentries, stats, binary_triples, cases)
    tie_score(ctx, tab, sentries, stats)
    files, seen = [], set()
    limit, maxfiles = (2600, 90) if quick else (8000, 800)
    order = sorted(range(len(cases)), key=lambda i: (cases[i]["ordering"].startswith("tie") is False, i))
    for i in order:
        c = cases[i]
        data = open(c["plain_path"], "rb").read()
        big_ok = c["ordering"].startswith("tie")          # the corpus tie witness is large: always included
        if not data or (len(data) > limit and not big_ok) or len(files) >= maxfiles:
            continue
        key = (c["layout"], data)
        if key in seen:
            continue
        seen.add(key)
        files.append((c["plain_path"], U.case_kind(lays_ref[c["layout"]], c), data, c["bs_proc"] if c["bs_proc"] >= 64 else 64, "case %d %s %s" % (i, c["layout"], c["ordering"])))
    r = tie_detect(ctx, tab, lays_ref, files, stats, repeat=2 if quick else 4)
    stats["detect_order_fixed_in_code"] = bool(tab.get("order_fixed"))


def score_function_check(ctx, lays_ref, stats):
    """C: `the layout score of an entry is a function of the entry's bytes` (otherwise the detected
    layout is not a function of the file).  One entry per layout with every string field filled to
    its width, scored repeatedly in one process with other allocations in between."""
    try:
        tab = gen_tables()
    except Exception:
        return
    rng = ctx.rng
    lines, owners = [], []
    reps = 40
    for n, lay in lays_ref.items():
        e = fix_f32(tab, n, U.make_record(lay, 1, (T0, 0), None, "full_all"), rng)
        for k in range(reps):
            n2 = rng.choice(sorted(lays_ref))
            noise = bytes(rng.randrange(1, 256) for _ in range(lays_ref[n2]["size"]))
            lines.append("%s\t0\t%s" % (n2, noise.hex()))
            owners.append(None)
            lines.append("%s\t%d\t%s" % (n, tab["score_bonus"], e.hex()))
            owners.append((n, e))
    outl, err = vlib.harness("c08", lines, timeout=300, args=["score"])
    if outl is None or len(outl) != len(lines):
        ctx.obligation_broken("correspondence", "harness c08 score run (score function check)", err)
        return
    seen = {}
    for o, w in zip(outl, owners):
        if w is not None:
            seen.setdefault(w, set()).add(o)
    stats["score_function_entries"] = len(seen)
    stats["score_function_violations"] = 0
    for (n, e), vals in sorted(seen.items()):
        if len(vals) > 1:
            stats["score_function_violations"] += 1
            open_ = any(it[0] == "cstr" and 0 not in e[it[1]:] for it in tab["score"][n])
            ctx.failure(dict(layout=n, entry_hex=e.hex(), note="the same %d bytes scored %d times by FixedStruct::score_fixedstruct in one process" % (len(e), reps)),
                        "one score (the layout score of an entry is a function of its bytes)",
                        dict(distinct_scores=sorted(vals)),
                        ["score_reads_past_struct_end"] if open_ else [])


def evaluate(ctx, lays_ref, cases, do_b=True):
    """runs B and C on the cases; registers broken obligations / failures; returns stats"""
    d = vlib.scratch_dir("C08")
    write_case_files(d, lays_ref, cases)
    stats = dict(model_disagreements=0, spec_failures=0, nul_cases=0, misdetected=0, bytes_cases=0,
                 harness_decoder_mismatch=0, printed_records=0, unexpected_entry_errors=0, rendered_inprocess=0, render_mismatch=0, b_skipped_detection_class=0)
    # ---------------- B: in-process reader vs model
    if do_b:
        names = sorted(U.NAME_KIND)
        outk, errk = vlib.harness("c08", ["/x/" + n for n in names], timeout=60, args=["kindof"])
        want = [str(U.KINDS.index(U.NAME_KIND[n])) for n in names]
        if outk != want:
            ctx.obligation_broken("correspondence", "file name -> reader kind (path_to_filetype) vs the check's NAME_KIND",
                                  json.dumps(dict(names=names, library=outk, check=want, err=errk)))
        lines = ["%s\t%d\t%d\t%s\t%s%s" % (c["plain_path"], U.KINDS.index(U.case_kind(lays_ref[c["layout"]], c)), c["bs_proc"],
                                          bound_arg(c["lo"]), bound_arg(c["hi"]), "\tR" if len(c["recs"]) <= 16 else "") for c in cases]
        outl, err = vlib.harness("c08", lines, timeout=900)
        if outl is None or len(outl) != len(lines):
            ctx.obligation_broken("correspondence", "harness c08 run", err)
        else:
            rows, brows = [], []
            for i, (c, o) in enumerate(zip(cases, outl)):
                lay = lays_ref[c["layout"]]
                tok = o.split(" ")
                impl = []
                if tok[0] == "OK":
                    if tok[1] != c["layout"]:
                        stats["misdetected"] += 1
                        impl = None
                    else:
                        bad = set(bad_fos(lay, c))
                        for e in tok[2:]:
                            me = re.fullmatch(r"E(\d+)", e)
                            if me:          # process_entry_at -> Err((Some(next), _)): nothing sent, loop continues
                                if int(me.group(1)) not in bad:
                                    stats["unexpected_entry_errors"] += 1
                                continue
                            if not re.fullmatch(r"\d+:-?\d+:-?\d+:-?\d+:-?\d+(?::[0-9a-f]*)?", e):
                                impl = None
                                break
                            parts = e.split(":")
                            fo, s, u, ds, du = (int(x) for x in parts[:5])
                            impl.append(fo)
                            if len(parts) > 5 and fo % lay["size"] == 0 and fo // lay["size"] < len(c["recs"]):
                                k = fo // lay["size"]
                                text = bytes.fromhex(parts[5]).replace(b"\x00", b"").decode("utf-8", "replace").rstrip("\n")
                                stats["rendered_inprocess"] += 1
                                if (c["recs"][k][1] is None and not ss_field_with_newline(lays_ref, c)
                                        and any(not re.search(pat, text) for _, pat in U.expected_patterns(lay, k, c["recs"][k][0], c.get("strmode")))):
                                    stats["render_mismatch"] += 1
                                    if stats["render_mismatch"] == 1:
                                        ctx.obligation_broken("correspondence", "FixedStruct::as_bytes (in-process) vs the written field values",
                                                              json.dumps(dict(case=case_public(c), record=k, rendered=text[:600])))
                            k = fo // lay["size"]
                            wrote = tuple(c["recs"][k][0]) if (fo % lay["size"] == 0 and k < len(c["recs"])) else None
                            if (s, u) != (ds, du) or wrote != (s, u):
                                stats["harness_decoder_mismatch"] += 1
                elif tok[0] == "NEW":
                    impl = []          # nothing is sent to the printer
                else:
                    impl = None
                if tok[0] == "NEW" and utmpx_read_as_freebsd(lays_ref, c) and U.spec_order(c["recs"], c["lo"], c["hi"]):
                    stats["b_skipped_detection_class"] += 1
                    continue           # reader creation failed on a file of the recorded detection class
                if impl is None:
                    if c["layout"] in UNREACHABLE or (tok[0] == "OK" and tok[1] != c["layout"]
                                                      and (lastlog32_read_as_utmp40(c) or utmpx_read_as_freebsd(lays_ref, c) or layout_score_tie(lays_ref, c)
                                                           or score_read_leaves_struct(lays_ref, c))):
                        stats["b_skipped_detection_class"] += 1
                        continue       # covered by the failing-input search (class of a recorded finding)
                    ctx.obligation_broken("correspondence", "FixedStructReader (in-process) vs Model.Records.records_out_K2",
                                          json.dumps(dict(case=case_public(c), harness_line=o[:400])))
                    stats["model_disagreements"] += 1
                    continue
                if c["layout"] in UNREACHABLE and tok[0] == "NEW":
                    continue
                rows.append((i, cq_case(lay, c, impl)))
                if len(c["recs"]) <= 12 and len(brows) < 64:
                    data = open(c["plain_path"], "rb").read()
                    brows.append((i, '("%s", "%s", %s, %s, [%s], [%s])' % (c["layout"], data.hex(), cq_opt(c["lo"]), cq_opt(c["hi"]),
                                                                           "; ".join("%d%%N" % f for f in bad_fos(lay, c)),
                                                                           "; ".join("%d%%N" % f for f in impl))))
            bad = coq_eval(ctx, "model", "model_bad", rows, "correspondence")
            if bad:
                stats["model_disagreements"] += len(bad)
                i = sorted(bad)[0]
                ctx.obligation_broken("correspondence", "FixedStructReader (in-process) vs Model.Records.records_out_K2",
                                      json.dumps(dict(case=case_public(cases[i]), harness_line=outl[i][:400], model_count_plus_1=bad[i],
                                                      disagreements=len(bad))))
            stats["bytes_cases"] = len(brows)
            badb = coq_eval(ctx, "bytes", "bytes_bad", brows, "correspondence")
            if badb:
                i = sorted(badb)[0]
                ctx.obligation_broken("correspondence", "reader vs model through the regenerated layout row (decode_tv)",
                                      json.dumps(dict(case=case_public(cases[i]), harness_line=outl[i][:400], code=badb[i])))
            if stats["unexpected_entry_errors"]:
                ctx.obligation_broken("correspondence", "process_entry_at returned Err for an entry that is not all-0xFF",
                                      "%d entries" % stats["unexpected_entry_errors"])
            if stats["harness_decoder_mismatch"]:
                ctx.obligation_broken("correspondence", "tv_pair of printed entries vs harness-side decoder vs written values",
                                      "%d entries" % stats["harness_decoder_mismatch"])
    # ---------------- C: the layout score of an entry is a function of its bytes
    score_function_check(ctx, lays_ref, stats)
    # ---------------- C: the binary vs the spec
    with ThreadPoolExecutor(max_workers=vlib.NCPU) as ex:
        results = list(ex.map(run_binary, cases))
    rows, judged = [], {}
    for i, (c, (rc, out, err)) in enumerate(zip(cases, results)):
        lay = lays_ref[c["layout"]]
        fos, problems, nul, nlines = judge_binary(lay, c, rc, out, err)
        stats["printed_records"] += nlines
        errs = b"\n".join(l for l in err.split(b"\n") if l.startswith(b"ERROR") or l.startswith(b"WARNING"))
        judged[i] = (fos, problems, nul, nlines, errs[-300:].decode("utf-8", "replace"), detection_symptom(c, err, nlines))
        if fos is not None:
            rows.append((i, cq_case(lay, c, fos)))
    bad = coq_eval(ctx, "spec", "spec_bad", rows, "spec-evaluation")
    if bad is None:
        bad = {}
    # ---------------- B: the record text the BINARY printed vs Model.RecordRender.render of that record's bytes
    if do_b:
        triples = []
        for i, (c, (rc, out, err)) in enumerate(zip(cases, results)):
            fos, problems, nul, nlines, errtxt, wrong_layout = judged[i]
            if fos is None or problems or wrong_layout or i in bad or len(c["recs"]) > 12 or len(triples) > (260 if ctx.quick() else 4000):
                continue
            lay = lays_ref[c["layout"]]
            chunks = out.split(b"\n\x00")
            if chunks and chunks[-1] == b"":
                chunks.pop()
            if len(chunks) != len(fos):
                continue
            data = open(c["plain_path"], "rb").read()
            for fo, ch in zip(fos, chunks):
                k = ch.find(b"|:")
                if k >= 0:
                    triples.append((c["layout"], data[fo:fo + lay["size"]], ch[k + 2:] + b"\n\x00", i))
        stats["binary_lines_vs_model"] = len(triples)
        # ---------------- B: rendering, scoring and layout detection vs their models
        new_ties(ctx, lays_ref, cases, stats, triples)
    for i, c in enumerate(cases):
        fos, problems, nul, nlines, errtxt, wrong_layout = judged[i]
        exp = [k * lays_ref[c["layout"]]["size"] for k in U.spec_order(c["recs"], c["lo"], c["hi"])]
        wrong = (fos is None) or (i in bad) or bool(problems)
        if wrong:
            stats["spec_failures"] += 1
            cls = ["layout_not_offered_by_filesz_to_types"] if c["layout"] in UNREACHABLE else []
            if gz_multiblock(lays_ref, c):
                cls.append("gz_container_and_file_larger_than_one_block")
            if lastlog32_read_as_utmp40(c):
                cls.append("netbsd_lastlog_size_multiple_of_40_with_printable_time_bytes")
            if wrong_layout and utmpx_read_as_freebsd(lays_ref, c):
                cls.append("size_multiple_of_another_layout_with_long_strings")
            if wrong_layout and layout_score_tie(lays_ref, c):
                cls.append("layout_score_tie")
            if wrong_layout and score_read_leaves_struct(lays_ref, c):
                cls.append("score_reads_past_struct_end")
            if ss_field_with_newline(lays_ref, c):
                cls.append("netbsd_ss_field_with_newline")
            ctx.failure(case_public(c), dict(record_offsets_in_order=exp, note="Coq spec_records; python rendering shown"),
                        dict(record_offsets_in_order=fos, problems=problems[:5], stderr=errtxt), cls)
        elif nul:
            stats["nul_cases"] += 1
            cls = ["nul_byte_follows_every_printed_record"] if (nul == nlines and nlines > 0) else []
            ctx.failure(case_public(c), "each printed line shows that record's own field values and nothing else (no NUL bytes on stdout)",
                        dict(nul_bytes=nul, printed_records=nlines), cls)
    return stats


def run(ctx):
    quick = ctx.quick()
    vlib.proof_stage(ctx, PROP_FILE, ["fixedstruct"], extra_targets=["Corr/C08.vo"])
    ok, log = vlib.build_harness("c08")
    if not ok:
        ctx.obligation_broken("build", "harness c08", log)
    oks, logs = vlib.build_s4()
    if not oks:
        ctx.obligation_broken("build", "s4 binary", logs)
        return ctx.finish()
    lays_ref, consts = U.ref_layouts()
    # the regenerated table must describe the same layouts as the frozen reference the files are
    # written from (otherwise B would compare different things)
    try:
        gen = json.load(open(os.path.join(vlib.COQ, "Gen", "fixedstruct_tables.json")))
        g = {l["name"]: l for l in gen["layouts"]}
        keys = ("size", "offset_tv", "size_tv", "sec_off", "sec_len", "sec_signed", "usec_off", "usec_len")
        diff = [n for n in set(g) | set(lays_ref) if n not in g or n not in lays_ref or any(g[n][k] != lays_ref[n][k] for k in keys)]
        if diff:
            ctx.obligation_broken("translator", "regenerated layout table differs from the frozen reference", json.dumps(sorted(diff)))
    except Exception as e:
        ctx.obligation_broken("translator", "fixedstruct_tables.json unreadable", repr(e))
    per_layout = 16 if quick else 420
    cases = corpus_cases(lays_ref) + boundary_cases(ctx.rng, lays_ref) + gen_cases(ctx.rng, lays_ref, per_layout, quick)
    stats = evaluate(ctx, lays_ref, cases, do_b=ok)
    # ---------------- evidence
    seen, nt = set(), 0
    for c in cases:
        key = json.dumps(case_public(c), sort_keys=True)
        if key in seen:
            continue
        seen.add(key)
        if nontrivial(c):
            nt += 1

    def hist(f):
        h = {}
        for c in cases:
            k = str(f(c))
            h[k] = h.get(k, 0) + 1
        return h
    ctx.coverage.update(
        evaluations=len(cases), distinct_nontrivial=nt,
        rule="one case = (layout of the frozen reference table, record list with time values in one of five orderings "
             "[sorted, reversed, shuffled, all equal, few distinct seconds], null records interleaved [all-zero entry or zero time], invalid all-0xFF entries interleaved [start/middle/end, one/several], "
             "C-string fields short / width-1 / full width without NUL [all at once, rotating, mixed], "
             "real-world file name [wtmp, utmp, btmp, wtmp.1, utmpx, wtmpx, btmpx, lastlog, lastlogx, acct, pacct: the name selects which layouts get the bonus] x record counts that make another layout's entry size divide the file size, "
             "first records of every ut_type with real-world user names and 4-character ids, every shape of ut_addr_v6 [empty, IPv4, IPv6 full / zero middle words / only last word / zero last word / v4-mapped], UTF-8 names, sockaddr bytes, "
             "window [none / bounds exactly on record times / one microsecond inside / before or after all], block size, container); "
             "each case runs in-process (vs model) and through the s4 binary (vs spec). non-trivial = at least two records kept and "
             "(a tie of time values, or file order different from time order, or a null record present, or a bound equal to a kept record's time); "
             "distinct by the whole case",
        samples=[case_public(cases[i]) for i in (0, len(cases) // 2)],
        layouts=sorted(set(c["layout"] for c in cases)), layout_count=len(set(c["layout"] for c in cases)),
        ordering_histogram=hist(lambda c: c["ordering"]), window_histogram=hist(lambda c: c["window"]),
        string_mode_histogram=hist(lambda c: c.get("strmode", "normal")),
        cases_with_invalid_entries=sum(1 for c in cases if any(nk == "ff" for _, nk in c["recs"])),
        invalid_entries_total=sum(1 for c in cases for _, nk in c["recs"] if nk == "ff"),
        file_name_histogram=hist(lambda c: c.get("fname") or "(default of the kind)"),
        value_mode_histogram=hist(lambda c: U.split_mode(c.get("strmode"))[1][:4] or "plain"),
        address_shapes=len(U.ADDR_SHAPES),
        container_histogram=hist(lambda c: c["container"]), blocksz_binary_histogram=hist(lambda c: c["bs_bin"]),
        blocksz_inprocess_histogram=hist(lambda c: c["bs_proc"]),
        record_count_histogram=hist(lambda c: min(len(c["recs"]) // 25 * 25, 200)),
        records_total=sum(len(c["recs"]) for c in cases), traces_validated_against_impl=len(cases),
        **stats)
    ctx.assumptions += [
        "the frozen reference layouts (checks/c08_ref_layouts.json) are the platforms' struct layouts; they were taken from the crate's struct definitions and cross-checked against the harness's hand-written time decoder and the C headers quoted in the source",
        "an entry whose bytes are all 0xFF is invalid: it is not a record (nothing is printed for it) and every other record is still printed once in time order; rule implemented in the model: it takes part in the ordering under the time value its bytes decode to and is dropped when it would be sent (records_sent), tied by run B including the position of the Err in the walk",
        "a C-string field holds exactly its bytes up to the first NUL or up to its width, whichever comes first",
        "time values are in-domain: seconds in 2023..2024 (inside the plausibility range the scorer expects), microseconds in [0, 999999]",
        "layout detection is modelled (Model.LayoutDetect) and compared in-process on every generated file of at most a few KB; reads of the scoring that leave the struct (CStr::from_ptr on an unterminated last string) are outside what the model can predict and are not compared (counted: score_overread_not_compared, detect_overread_not_compared)",
        "format!(\"{}\", f32) is a parameter of the rendering model; compared entries carry integer-valued f32 below 2^24 in ac_etime",
        "the sockaddr field of the NetBSD i386 layouts is generated with printable bytes (and with a newline byte for the recorded finding's class)",
        "decoders of .gz/.xz/.tar are exercised, not modelled (C05)",
    ]
    return ctx.finish()


def replay(ctx, path):
    r = json.load(open(path))
    lays_ref, _ = U.ref_layouts()
    vlib.build_s4()
    vlib.build_harness("c08")
    cases = []
    for f in r.get("failures", []):
        c = f["case"]
        if "recs" not in c:          # a failure of the score-function check: it is re-run by evaluate() as a whole
            continue
        c["recs"] = [((t[0], t[1]), nk) for t, nk in c["recs"]]
        c["lo"] = tuple(c["lo"]) if c["lo"] else None
        c["hi"] = tuple(c["hi"]) if c["hi"] else None
        c.setdefault("strmode", "normal")
        cases.append(c)
    if not cases and not r.get("failures"):
        print("nothing to replay (obligation replay: run ./check C08)")
        return 0
    evaluate(ctx, lays_ref, cases, do_b=False)
    for f in ctx.failures:
        print("replay: expected %s got %s" % (json.dumps(f["expected"])[:300], json.dumps(f["got"])[:300]))
    if ctx.failures:
        print("VIOLATION property=C08 replay=%s" % path)
        return 1
    print("replay: no failure reproduced")
    return 0
