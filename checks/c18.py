"""C18 — no temporary files are left behind, even on Ctrl-C; an interrupt ends the run promptly.

A. Coq: Props/C18.v — interleaving model of workers / signal handler / main (Model/TempFiles.v):
   normal-exit theorem for the current protocol, all-schedules theorem for the repaired protocol,
   refuted lemmas (witness schedules) for the leak on SIGINT (F5) and for promptness (F5b).
B. histories: the hooked binary is driven into named schedules (H2 delays in decompress_to_ntf, H1
   send delays, SIGINT sent when the temp file is seen in a private TMPDIR); the number of files
   left must equal `files (run Pcur (init n) evs)` of the corresponding model schedule.
C. the property itself on every run: TMPDIR empty at exit and exit within BOUND seconds of SIGINT.
   Failing runs inside a listed class are KNOWN-FINDINGs, any other is a VIOLATION.
"""
import gzip, io, json, os, shutil, signal, subprocess, tarfile, time
from concurrent.futures import ThreadPoolExecutor
import vlib
from vlib import CACHE

PROP_FILE = "Props/C18.v"
BOUND = 2.0          # seconds from SIGINT to process end
JDIR = os.path.join(vlib.REPO, "logs", "programs", "journal")
EDIR = os.path.join(vlib.REPO, "logs", "programs", "evtx")
SMALL = ["Ubuntu22-user-1000x3.journal.gz", "Ubuntu22-user-1000x3.journal.xz",
         "Ubuntu22-user-1000x3.journal.bz2", "Ubuntu22-user-1000x3.journal.lz4"]
BIG = "RHE_91_system.journal.gz"
N_MANY = 64


def text_log(path, n, start):
    with open(path, "w") as f:
        for i in range(n):
            t = start + i
            f.write("2021-03-%02dT%02d:%02d:%02d message number %d of a cycling source\n"
                    % (1 + (t // 86400) % 28, (t // 3600) % 24, (t // 60) % 60, t % 60, i))


def evtx_sources():
    out = []
    if os.path.isdir(EDIR):
        for n in sorted(os.listdir(EDIR)):
            if n.endswith((".evtx.gz", ".evtx.xz", ".evtx.bz2", ".evtx.lz4")) and os.path.getsize(os.path.join(EDIR, n)) > 0:
                out.append(os.path.join(EDIR, n))
    return out


def one_run(case):
    """case: dict(kind, dir, files, env, sigint_after_file (s or None), cpu (int or None)).
    returns dict(left, latency, rc, saw_file, wall)"""
    d = case["dir"]
    tmp = os.path.join(d, "tmp")
    os.makedirs(tmp, exist_ok=True)
    env = dict(os.environ)
    env.update(case.get("env", {}))
    env["TMPDIR"] = tmp
    env["TZ"] = "UTC"
    cmd = [vlib.S4_BIN, "--color", "never"] + case["files"]
    if case.get("cpu") is not None:
        cmd = ["taskset", "-c", str(case["cpu"])] + cmd
    t0 = time.time()
    p = subprocess.Popen(cmd, env=env, stdout=subprocess.DEVNULL, stderr=subprocess.DEVNULL)
    saw = False
    visible = None
    latency = None
    t_sig = None
    try:
        if case.get("sigint_after_file") is not None:
            want = case.get("wait_files", 1)
            while time.time() - t0 < 10 and p.poll() is None:
                if len(os.listdir(tmp)) >= want:
                    saw = True
                    break
                time.sleep(0.002)
            if saw and case.get("wait_print"):
                # wait until the coordinator has printed something (trace hook), i.e. extraction is over
                tr = env.get("S4_VERIF_TRACE")
                while time.time() - t0 < 60 and p.poll() is None:
                    try:
                        if b"\nP " in open(tr, "rb").read():
                            break
                    except OSError:
                        pass
                    time.sleep(0.005)
            if saw and p.poll() is None:
                time.sleep(case["sigint_after_file"])
                if p.poll() is None:
                    visible = len(os.listdir(tmp))
                    t_sig = time.time()
                    p.send_signal(signal.SIGINT)
        elif case.get("sigint_at") is not None:
            time.sleep(case["sigint_at"])
            if p.poll() is None:
                t_sig = time.time()
                p.send_signal(signal.SIGINT)
        rc = p.wait(timeout=90)
        if t_sig is not None:
            latency = time.time() - t_sig
    except subprocess.TimeoutExpired:
        p.kill()
        rc = 124
        latency = 90.0
    left = sorted(os.listdir(tmp))
    return dict(left=len(left), latency=latency, rc=rc, saw_file=saw, signalled=t_sig is not None, visible_at_signal=visible,
                wall=round(time.time() - t0, 3))


def model_schedule(kind, n_ntf, fast_handler, proto="Pcur"):
    """event list (Coq syntax) of the model schedule that corresponds to a plan kind.
    workers 0..n_ntf-1 are the compressed sources; worker 0 is the delayed one."""
    ev = []
    if proto == "Pfixed":
        # creation + registration is ONE worker step (under the registry lock); a handler that arrives
        # while a worker is inside that step waits for the lock, i.e. runs after the step
        if kind in ("normal", "normal_1cpu"):
            for i in range(n_ntf):
                ev += ["EW %d" % i] * 2       # create+register, summary sent
            return ev + ["EM", "EM"]
        for i in range(n_ntf):
            ev += ["EW %d" % i]
        return ev + ["EH", "EH", "EH", "EM", "EM"]
    if kind in ("normal", "normal_1cpu"):
        for i in range(n_ntf):
            ev += ["EW %d" % i] * 3           # create, register, summary sent
        ev += ["EM", "EM"]                    # main sweeps and exits before any reader is dropped
    elif kind == "in_create_window":
        ev += ["EW 0"]                        # delayed source: created, sleeping before registration
        for i in range(1, n_ntf):
            ev += ["EW %d" % i] * 2
        if fast_handler:
            ev += ["EH", "EH", "EH", "EM", "EM"]
        else:                                 # handler had to wait for the lock until the source moved on
            ev += ["EW 0", "EW 0", "EH", "EH", "EH", "EM", "EM"]
    elif kind in ("in_register_window", "blocked", "late", "many"):
        for i in range(n_ntf):
            ev += ["EW %d" % i] * 2
        ev += ["EH", "EH", "EH", "EM", "EM"]
    elif kind == "early":
        # SIGINT before any registration can have happened (every source sleeps after create)
        for i in range(n_ntf):
            ev += ["EW %d" % i] * (1 if fast_handler else 2)   # slow handler: it got the lock only after they registered
        ev += ["EH", "EH", "EH", "EM", "EM"]
    return ev


def run(ctx):
    quick = ctx.quick()
    reps = 1 if quick else 6
    vlib.proof_stage(ctx, PROP_FILE, ["tempproto"], extra_targets=["Model/TempFiles.vo", "Gen/TempProto.vo"])
    timed = False
    try:
        tp = json.load(open(os.path.join(vlib.COQ, "Gen", "tempproto.json")))
        proto, timed = tp["proto"], bool(tp.get("select_has_timeout")) and bool(tp.get("handler_flag_first"))
    except Exception:
        proto = "Pcur"
    ctx.coverage["protocol_of_current_tree"] = proto
    ctx.coverage["select_has_timeout"] = timed
    ok, log = vlib.build_s4()
    if not ok:
        ctx.obligation_broken("build", "s4 binary", log)
        return ctx.finish()
    root = vlib.scratch_dir("C18")
    rng = ctx.rng
    evtx = evtx_sources()
    cases = []

    def newdir():
        d = os.path.join(root, "r%04d" % len(cases))
        os.makedirs(d)
        return d

    def cyclers(d, k):
        out = []
        for j in range(k):
            p = os.path.join(d, "cycle%d.log" % j)
            text_log(p, 12, 1000 * j)
            out.append(p)
        return out

    def slow_copy(d, src):
        dst = os.path.join(d, "slowsrc." + ".".join(os.path.basename(src).split(".")[-2:]))
        shutil.copy(src, dst)
        return dst

    # long-running sources, one per container kind
    bigdir = os.path.join(root, "big")
    os.makedirs(bigdir)
    big_sources = []
    for ext in ("gz", "xz", "bz2", "lz4"):
        p = os.path.join(JDIR, "RHE_91_system.journal." + ext)
        if os.path.exists(p) and os.path.getsize(p) > 0:
            big_sources.append((ext, [p]))
    plain = gzip.decompress(open(os.path.join(JDIR, BIG), "rb").read())
    tpath = os.path.join(bigdir, "bigjournal.tar")
    with tarfile.open(tpath, "w", format=tarfile.USTAR_FORMAT) as tf:
        ti = tarfile.TarInfo("RHE_91_system.journal")
        ti.size = len(plain)
        ti.mtime = 1650000000
        tf.addfile(ti, io.BytesIO(plain))
    big_sources.append(("tar-journal", [tpath]))
    etar = os.path.join(EDIR, "Microsoft-Windows-Kernel-PnP%4Configuration.tar")
    if os.path.exists(etar) and os.path.getsize(etar) > 0:
        big_sources.append(("tar-evtx", [etar]))
    big_sources.append(("mix", [os.path.join(JDIR, BIG), tpath, os.path.join(JDIR, SMALL[1])]))
    # Calibration for the many-sources run: how long do N_MANY single-source PROCESSES, started together,
    # take on this machine right now?  That is the time N_MANY extractions need when nothing inside
    # one process serialises them, under the current load.
    def calib_one(i):
        srcn = ["RHE_91_system.journal.bz2", "RHE_91_system.journal.xz"][i % 2]
        return one_run(dict(kind="calib", dir=os.path.join(root, "calib%02d" % i), files=[os.path.join(JDIR, srcn)]))
    tc = time.time()
    with ThreadPoolExecutor(max_workers=N_MANY) as ex:
        list(ex.map(calib_one, range(N_MANY)))
    W_PROCS = time.time() - tc

    for rep in range(reps):
        # normal runs, all cores and confined to one cpu, 1..4 compressed sources
        for k in (1, 2, 3, 4):
            for cpu in (None, rng.randrange(vlib.NCPU)):
                d = newdir()
                files = [os.path.join(JDIR, SMALL[(i + rep) % len(SMALL)]) for i in range(k)]
                if evtx and k >= 3:
                    files[-1] = evtx[rep % len(evtx)]
                cases.append(dict(kind="normal_1cpu" if cpu is not None else "normal", dir=d, files=files, cpu=cpu, n_ntf=k))
        # SIGINT between creation and registration of one source while other sources keep the coordinator cycling
        for sa in (0.05, 0.15, 0.3):
            d = newdir()
            src = slow_copy(d, os.path.join(JDIR, rng.choice(SMALL)))
            cases.append(dict(kind="in_create_window", dir=d, files=cyclers(d, 6) + [src], n_ntf=1,
                              env={"S4_VERIF_NTF_DELAY": "after_create:1500", "S4_VERIF_NTF_MATCH": "slowsrc",
                                   "S4_VERIF_PLAN": "seed=%d,max_us=400000" % rng.randrange(1 << 30)},
                              sigint_after_file=sa))
        # SIGINT after registration, during a long extraction (modelled by the after_register delay)
        for sa in (0.05, 0.3):
            d = newdir()
            src = slow_copy(d, os.path.join(JDIR, rng.choice(SMALL)))
            cases.append(dict(kind="in_register_window", dir=d, files=cyclers(d, 6) + [src], n_ntf=1,
                              env={"S4_VERIF_NTF_DELAY": "after_register:1500", "S4_VERIF_NTF_MATCH": "slowsrc",
                                   "S4_VERIF_PLAN": "seed=%d,max_us=400000" % rng.randrange(1 << 30)},
                              sigint_after_file=sa))
        # SIGINT before any registration (every compressed source sleeps right after creation)
        for k in (1, 3):
            d = newdir()
            files = [slow_copy(d, os.path.join(JDIR, SMALL[i]))[:-0] for i in range(1)]
            files = []
            for i in range(k):
                dst = os.path.join(d, "slowsrc%d." % i + ".".join(SMALL[i].split(".")[-2:]))
                shutil.copy(os.path.join(JDIR, SMALL[i]), dst)
                files.append(dst)
            cases.append(dict(kind="early", dir=d, files=cyclers(d, 6) + files, n_ntf=k, wait_files=k,
                              env={"S4_VERIF_NTF_DELAY": "after_create:1500", "S4_VERIF_NTF_MATCH": "slowsrc",
                                   "S4_VERIF_PLAN": "seed=%d,max_us=400000" % rng.randrange(1 << 30)},
                              sigint_after_file=0.05))
        # SIGINT late, while printing: one long-running source per container kind, alone
        # (gz / xz / bz2 / lz4 journals, a tar-archived journal, a tar-archived evtx), and a mix
        for label, files_ in big_sources:
            d = newdir()
            cases.append(dict(kind="late", container=label, dir=d, files=list(files_), n_ntf=len(files_), wait_files=1, wait_print=True,
                              env={"S4_VERIF_PLAN": "seed=%d,max_us=3000" % rng.randrange(1 << 30),
                                   "S4_VERIF_TRACE": os.path.join(d, "trace.txt")},
                              sigint_after_file=rng.choice([0.02, 0.1, 0.25])))
        # SIGINT while many sources are being extracted concurrently
        d = newdir()
        many = []
        for i in range(N_MANY):
            srcn = ["RHE_91_system.journal.bz2", "RHE_91_system.journal.xz"][i % 2]
            dst = os.path.join(d, "m%02d." % i + ".".join(srcn.split(".")[-2:]))
            os.symlink(os.path.join(JDIR, srcn), dst)
            many.append(dst)
        cases.append(dict(kind="many", dir=d, files=many, n_ntf=N_MANY, wait_files=1, sigint_after_file=0.1))
        # the only source is silent (inside a 4 s delay) when SIGINT arrives: coordinator blocked in select
        d = newdir()
        src = slow_copy(d, os.path.join(JDIR, SMALL[0]))
        cases.append(dict(kind="blocked", dir=d, files=[src], n_ntf=1,
                          env={"S4_VERIF_NTF_DELAY": "after_register:4000", "S4_VERIF_NTF_MATCH": "slowsrc"},
                          sigint_after_file=0.2))

    with ThreadPoolExecutor(max_workers=8) as ex:
        results = list(ex.map(one_run, cases))

    # ---- C: the property on every run
    hist = {}
    for c, r in zip(cases, results):
        k = c["kind"]
        h = hist.setdefault(k, dict(runs=0, leaks=0, slow=0, signalled=0))
        h["runs"] += 1
        h["signalled"] += 1 if r["signalled"] else 0
        desc = dict(kind=k, container=c.get("container"), files=[os.path.basename(f) for f in c["files"]], env=c.get("env", {}),
                    sigint_after_file=c.get("sigint_after_file"), cpu=c.get("cpu"), result=r)
        if r["rc"] == 124:
            ctx.failure(desc, "process ends", "hang (killed after 90 s)")
            continue
        if r["rc"] < 0:
            ctx.failure(desc, "process ends by itself (exit status 0 or 1)", "killed by signal %d" % -r["rc"])
        if r["left"] != 0:
            h["leaks"] += 1
            cls = []
            if proto != "Pfixed":
                if r["signalled"] and k in ("in_create_window", "early"):
                    cls = ["sigint_before_registration"]
                if r["signalled"] and k == "many" and r["visible_at_signal"] is not None and r["visible_at_signal"] < c["n_ntf"]:
                    # some sources had not even created their file when the signal was sent:
                    # creation/registration was still in progress
                    cls = ["sigint_before_registration"]
            ctx.failure(desc, "no file left in TMPDIR", "%d file(s) left" % r["left"], cls)
        bound = BOUND
        if k == "many":
            # the N extractions run concurrently: allow what N independent processes needed just now
            bound = max(BOUND, 1.5 * W_PROCS)
            desc["bound_s"] = round(bound, 2)
            desc["n_single_source_processes_together_s"] = round(W_PROCS, 2)
        if proto == "Pfixed" and k in ("in_create_window", "early"):
            # the planned after_create delay (1.5 s per delayed source) is slept while the worker holds
            # the registry lock, and the handler needs that lock: the hook, not the code, delays it
            bound += 1.5 * c["n_ntf"] + 0.5
            desc["bound_s"] = round(bound, 2)
        if r["signalled"] and r["latency"] is not None and r["latency"] > bound:
            h["slow"] += 1
            cls = []
            if not timed and k in ("blocked", "in_create_window", "in_register_window", "early"):
                # injected worker delays: the coordinator spends its time blocked in select (holding the
                # read lock) and the handler must win the write lock in the short gaps in between
                cls = ["sigint_while_coordinator_blocked_on_silent_workers"]
            ctx.failure(desc, "exit within %.1fs of SIGINT" % bound, "%.2fs" % r["latency"], cls)

    # ---- B: leftover count vs the model schedule
    rows = []
    meta = []
    ambiguous = 0
    for c, r in zip(cases, results):
        if r["rc"] == 124:
            continue
        if c["kind"] not in ("normal", "normal_1cpu") and not r["signalled"]:
            continue                      # the run ended before the planned signal: not that schedule
        if c["kind"] == "many":
            continue                      # which workers had registered at the signal is not observable
        # when did the handler run, relative to the planned 1.5 s delay window that started when the
        # temp file was seen?  inside (fast) / after (slow) / too close to call (skipped)
        fast = True
        if proto != "Pfixed" and r["latency"] is not None and c.get("sigint_after_file") is not None and c["kind"] in ("in_create_window", "early"):
            t_handler = c["sigint_after_file"] + r["latency"]
            if 1.35 <= t_handler <= 1.7:
                ambiguous += 1
                continue
            fast = t_handler < 1.35
        evs = model_schedule(c["kind"], c["n_ntf"], fast, proto)
        rows.append("(%d, [%s], %d)" % (c["n_ntf"], "; ".join(evs), r["left"]))
        meta.append((c, r, evs))
    text = (vlib.COQ_PRINT_HDR + "From Coq Require Import List NArith.\nImport ListNotations.\n"
            "From S4.Model Require Import TempFiles.\nFrom S4.Gen Require Import TempProto.\n"
            "Definition cases : list (nat * list event * nat) := [\n%s\n].\n"
            "Fixpoint idx (i : N) (l : list (nat * list event * nat)) : list (N * N) :=\n"
            "  match l with [] => [] | (n, evs, lft) :: r =>\n"
            "    let m := files (run current_proto (init n) evs) in\n"
            "    (if andb (Nat.eqb m lft) (exited (run current_proto (init n) evs)) then [] else [(i, N.of_nat m)]) ++ idx (i + 1)%%N r end.\n"
            "Eval vm_compute in (idx 0%%N cases).\n") % ";\n".join(rows)
    rc, out = vlib.coq_eval(os.path.join(CACHE, "cases", "C18"), "cases_000", text)
    pairs = vlib.parse_eval_pairs(out) if rc == 0 else None
    if pairs is None:
        ctx.obligation_broken("correspondence", "model evaluation (coqc on cases)", out)
    else:
        for i, m in pairs[:3]:
            c, r, evs = meta[i]
            ctx.obligation_broken("correspondence", "files left by the binary vs Model.TempFiles.run current_proto",
                                  json.dumps(dict(kind=c["kind"], env=c.get("env", {}), schedule=evs, model_files=m, result=r)))

    distinct = len(set((c["kind"], tuple(os.path.basename(f) for f in c["files"]), c.get("sigint_after_file"), c.get("cpu") is not None) for c in cases))
    ctx.coverage.update(
        evaluations=len(cases), distinct_nontrivial=distinct,
        traces_validated_against_impl=len(rows),
        rule="runs of the hooked s4 binary on 1-4 compressed journal/evtx sources in a private TMPDIR; kinds: normal (all cpus / one cpu), SIGINT inside the create->register window of one source while six text sources with random send delays keep the coordinator cycling, SIGINT after registration, SIGINT before any registration, SIGINT while printing, SIGINT while the only source is silent; SIGINT is sent a chosen time after the temp file is SEEN in TMPDIR; distinct by (kind, sources, signal offset, cpu confinement); every run exercises a thread interleaving so all are non-trivial",
        samples=[dict(kind=c["kind"], files=[os.path.basename(f) for f in c["files"]], env=c.get("env", {}),
                      sigint_after_file=c.get("sigint_after_file"), result=r) for c, r in list(zip(cases, results))[:3] + list(zip(cases, results))[-2:]],
        kinds=hist, bound_s=BOUND, schedules_too_close_to_call=ambiguous, model_schedules_compared=len(rows),
        model_disagreements=(len(pairs) if pairs is not None else None))
    ctx.assumptions += ["the temp directory is the only place temporary files are created (TMPDIR honoured by the tempfile crate)",
                        "kernel signal delivery, thread scheduling and the tempfile crate are outside the model; schedules are forced with the cfg(s4_verif) delays and observed through the file system",
                        "model events are tied to code points by construction of the plans (create = file visible in TMPDIR; registration follows creation within microseconds unless the after_create delay is planned)"]
    shutil.rmtree(root, ignore_errors=True)
    return ctx.finish()


def replay(ctx, path):
    r = json.load(open(path))
    print(json.dumps(r, indent=1)[:4000])
    print("replay: re-run `./check C18` (timing-dependent schedules are re-created from the plan kinds)")
    return run(ctx)
