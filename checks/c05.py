"""C05 — compression and archiving are transparent (PARTIAL: decoders are oracles).

A. Coq: Props/C05.v — block assembly = chunk bs plain for EVERY contract-abiding decoder (gz, bz2,
   tar member), short/long declared sizes, xz slicing, tar member addressing, drain loop;
   lz4 single-read assembly refuted.  WP-J: what BlockReader::new derives itself (gzip header / trailer,
   bz2 / lz4 pre-pass, xz header bytes + decode loop, tar entry selection, mtime rule) against the
   format encoders of Spec/ContainersSpec.v — see checks/c05_glue.py for its B and C runs.
B. BlockReader::read_block (in-process, harness c05) on real .gz/.bz2/.lz4/.xz/.tar files written
   here from the same plain bytes vs the Coq model (Corr/C05.v model_bad).
C. failing-input search against the property itself:
   C1 block level: the same read_block results vs the Coq spec `chunk bs plain` (spec_bad);
   C2 end to end : stdout of the s4 binary for X.<form> must equal stdout for the plain X, for text,
      utmp, evtx and journal payloads, block sizes and datetime windows.
"""
import bz2, io, json, lzma, os, struct, tarfile, zlib, shutil
from concurrent.futures import ThreadPoolExecutor
import vlib
from vlib import CACHE

PROP_FILE = "Props/C05.v"
CODEC = {"gz": 1, "bz2": 2, "lz4": 3, "xz": 4, "tar": 5}
FTA = {"plain": 0, "bz2": 1, "gz": 2, "lz4": 3, "tar": 4, "xz": 5}
M32 = 0xFFFFFFFF
ENV = {"TZ": "UTC"}


def hx(b):
    return bytes(b).hex()


# ----------------------------------------------------------------------------- lz4 frames in python
P1, P2, P3, P4, P5 = 2654435761, 2246822519, 3266489917, 668265263, 374761393


def _rotl(x, r):
    return ((x << r) | (x >> (32 - r))) & M32


def xxh32(data, seed=0):
    n = len(data)
    i = 0
    if n >= 16:
        v1, v2, v3, v4 = (seed + P1 + P2) & M32, (seed + P2) & M32, seed & M32, (seed - P1) & M32
        while i <= n - 16:
            a, b, c, d = struct.unpack_from("<IIII", data, i)
            v1 = (_rotl((v1 + a * P2) & M32, 13) * P1) & M32
            v2 = (_rotl((v2 + b * P2) & M32, 13) * P1) & M32
            v3 = (_rotl((v3 + c * P2) & M32, 13) * P1) & M32
            v4 = (_rotl((v4 + d * P2) & M32, 13) * P1) & M32
            i += 16
        h = (_rotl(v1, 1) + _rotl(v2, 7) + _rotl(v3, 12) + _rotl(v4, 18)) & M32
    else:
        h = (seed + P5) & M32
    h = (h + n) & M32
    while i <= n - 4:
        (k,) = struct.unpack_from("<I", data, i)
        h = (_rotl((h + k * P3) & M32, 17) * P4) & M32
        i += 4
    while i < n:
        h = (_rotl((h + data[i] * P5) & M32, 11) * P1) & M32
        i += 1
    h ^= h >> 15
    h = (h * P2) & M32
    h ^= h >> 13
    h = (h * P3) & M32
    h ^= h >> 16
    return h


def _lit_block(b):
    """a *compressed* LZ4 block that is one literal-only sequence"""
    n = len(b)
    out = bytearray()
    if n < 15:
        out.append(n << 4)
    else:
        out.append(0xF0)
        r = n - 15
        while r >= 255:
            out.append(255)
            r -= 255
        out.append(r)
    return bytes(out) + b


def lz4_frame(plain, sizes, bd=4, content_checksum=False, content_size=False, stored=(True,), block_checksum=False):
    """LZ4 frame whose internal blocks have exactly the given sizes (stored or literal-only)."""
    flg = (1 << 6) | (1 << 5)
    if block_checksum:
        flg |= 1 << 4
    if content_size:
        flg |= 1 << 3
    if content_checksum:
        flg |= 1 << 2
    desc = bytes([flg, bd << 4])
    if content_size:
        desc += struct.pack("<Q", len(plain))
    out = bytearray(struct.pack("<I", 0x184D2204) + desc + bytes([(xxh32(desc) >> 8) & 0xFF]))
    pos = 0
    for k, s in enumerate(sizes):
        b = plain[pos:pos + s]
        pos += s
        if stored[k % len(stored)]:
            out += struct.pack("<I", len(b) | 0x80000000) + b
            if block_checksum:
                out += struct.pack("<I", xxh32(b))
        else:
            c = _lit_block(b)
            out += struct.pack("<I", len(c)) + c
            if block_checksum:
                out += struct.pack("<I", xxh32(c))
    assert pos == len(plain)
    out += struct.pack("<I", 0)
    if content_checksum:
        out += struct.pack("<I", xxh32(plain))
    return bytes(out)


LZ4_BD_MAX = {4: 65536, 5: 262144, 6: 1048576, 7: 4194304}


def split_sizes(rng, n, style, bs):
    """internal block sizes summing to n"""
    if n == 0:
        return []
    if style == "one":
        return [n]
    if style == "aligned":          # every boundary on a multiple of bs
        out, left = [], n
        while left > 0:
            s = min(left, bs * rng.randrange(1, 4))
            out.append(s)
            left -= s
        return out
    if style == "fixed":
        s = rng.choice([1, 2, 3, 7, max(1, bs - 1), bs + 1, 2 * bs + 1, 1000])
        return [s] * (n // s) + ([n % s] if n % s else [])
    out, left = [], n               # "random"
    while left > 0:
        s = min(left, rng.choice([1, 2, 3, 5, bs, bs + 1, max(1, bs - 1), rng.randrange(1, 4 * bs + 2)]))
        out.append(s)
        left -= s
    return out


def lz4_misaligned(sizes, bs, n):
    """known-finding class: an internal lz4 block boundary lies strictly inside a read block"""
    p = 0
    for s in sizes[:-1] if sizes else []:
        p += s
        if 0 < p < n and p % bs != 0:
            return True
    return False


# ----------------------------------------------------------------------------- other encoders
def gz_bytes(rng, data, level=6, fname=None, fextra=None, fcomment=None, mtime=0, fhcrc=False,
             flushes=(), mem_level=8, strategy=0):
    flg = 0
    if fextra is not None:
        flg |= 4
    if fname is not None:
        flg |= 8
    if fcomment is not None:
        flg |= 16
    if fhcrc:
        flg |= 2
    xfl = 2 if level == 9 else (4 if level == 1 else 0)
    hdr = bytes([0x1F, 0x8B, 8, flg]) + struct.pack("<I", mtime & M32) + bytes([xfl, 3])
    if fextra is not None:
        hdr += struct.pack("<H", len(fextra)) + fextra
    if fname is not None:
        hdr += fname + b"\0"
    if fcomment is not None:
        hdr += fcomment + b"\0"
    if fhcrc:
        hdr += struct.pack("<H", zlib.crc32(hdr) & 0xFFFF)
    co = zlib.compressobj(level, zlib.DEFLATED, -15, mem_level, strategy)
    body = b""
    pos = 0
    for cut, mode in flushes:
        body += co.compress(data[pos:cut]) + co.flush(mode)
        pos = cut
    body += co.compress(data[pos:]) + co.flush()
    return hdr + body + struct.pack("<II", zlib.crc32(data) & M32, len(data) & M32)


def gz_variant(rng, data):
    level = rng.choice([0, 0, 1, 2, 3, 4, 5, 6, 7, 8, 9, 9])
    kw = dict(level=level, mtime=rng.choice([0, 1, 1700000000, M32]))
    if rng.random() < 0.4:
        kw["fname"] = rng.choice([b"x.log", b"a b.log", b"\xe6\x97\xa5.log", b"n" * 300])
    if rng.random() < 0.25:
        kw["fextra"] = bytes(rng.randrange(256) for _ in range(rng.choice([0, 1, 4, 40])))
    if rng.random() < 0.25:
        kw["fcomment"] = rng.choice([b"", b"comment", b"c" * 500])
    if rng.random() < 0.2:
        kw["fhcrc"] = True
    if rng.random() < 0.5 and len(data) > 1:
        cuts = sorted(set(rng.randrange(0, len(data) + 1) for _ in range(rng.randrange(1, 6))))
        kw["flushes"] = [(c, rng.choice([zlib.Z_SYNC_FLUSH, zlib.Z_FULL_FLUSH])) for c in cuts]
    kw["mem_level"] = rng.choice([1, 8, 9])
    kw["strategy"] = rng.choice([zlib.Z_DEFAULT_STRATEGY, zlib.Z_HUFFMAN_ONLY, zlib.Z_RLE, zlib.Z_FIXED, zlib.Z_FILTERED])
    return gz_bytes(rng, data, **kw), dict(level=level, hdr=sorted(k for k in kw if k.startswith("f")), flushes=len(kw.get("flushes", ())))


def xz_variant(rng, data):
    check = rng.choice([lzma.CHECK_CRC32, lzma.CHECK_CRC64, lzma.CHECK_CRC64, lzma.CHECK_NONE])
    preset = rng.choice([0, 1, 3, 6, 9, 6 | lzma.PRESET_EXTREME])
    return lzma.compress(data, format=lzma.FORMAT_XZ, check=check, preset=preset), dict(check=check, preset=preset)


# ---- .xz written by hand: one Stream, any number of Blocks, optional size fields in the Block
#      Headers (what `xz -T2` writes), per the .xz file format specification 1.0.4
def _vli(n):
    out = bytearray()
    while n >= 0x80:
        out.append((n & 0x7F) | 0x80)
        n >>= 7
    out.append(n)
    return bytes(out)


_CRC64_TABLE = None


def crc64_xz(data):
    global _CRC64_TABLE
    if _CRC64_TABLE is None:
        poly = 0xC96C5795D7870F42
        t = []
        for i in range(256):
            c = i
            for _ in range(8):
                c = (c >> 1) ^ poly if c & 1 else c >> 1
            t.append(c)
        _CRC64_TABLE = t
    c = 0xFFFFFFFFFFFFFFFF
    for b in data:
        c = _CRC64_TABLE[(c ^ b) & 0xFF] ^ (c >> 8)
    return c ^ 0xFFFFFFFFFFFFFFFF


XZ_CHECKS = {"none": 0x00, "crc32": 0x01, "crc64": 0x04}


def xz_multiblock(data, sizes, with_sizes=True, check="crc64", dict_bits=20, preset=6, size_fields=(True, True)):
    """single-stream .xz whose Blocks hold exactly `sizes` uncompressed bytes each (all > 0).
    with_sizes: Block Headers carry Compressed Size / Uncompressed Size (size_fields selects which)."""
    assert sum(sizes) == len(data) and all(x > 0 for x in sizes)
    flags = bytes([0x00, XZ_CHECKS[check]])
    out = bytearray(b"\xFD7zXZ\x00" + flags + struct.pack("<I", zlib.crc32(flags) & M32))
    records = []
    pos = 0
    prop = 2 * (dict_bits - 12) + 0          # LZMA2 dictionary size byte: 2^dict_bits
    for sz in sizes:
        chunk = data[pos:pos + sz]
        pos += sz
        co = lzma.LZMACompressor(format=lzma.FORMAT_RAW, filters=[{"id": lzma.FILTER_LZMA2, "preset": preset, "dict_size": 1 << dict_bits}])
        comp = co.compress(chunk) + co.flush()
        bflags = 0x00                        # one filter
        body = b""
        if with_sizes and size_fields[0]:
            bflags |= 0x40
            body += _vli(len(comp))
        if with_sizes and size_fields[1]:
            bflags |= 0x80
            body += _vli(len(chunk))
        body += _vli(0x21) + _vli(1) + bytes([prop])
        hdr_len = 2 + len(body)
        real = (hdr_len + 4 + 3) // 4 * 4     # with CRC32, multiple of four
        hdr = bytes([real // 4 - 1, bflags]) + body + bytes(real - 4 - hdr_len)
        hdr += struct.pack("<I", zlib.crc32(hdr) & M32)
        out += hdr + comp + bytes((-len(comp)) % 4)
        if check == "crc32":
            out += struct.pack("<I", zlib.crc32(chunk) & M32)
            csz = 4
        elif check == "crc64":
            out += struct.pack("<Q", crc64_xz(chunk))
            csz = 8
        else:
            csz = 0
        records.append((len(hdr) + len(comp) + csz, len(chunk)))
    index = b"\x00" + _vli(len(records)) + b"".join(_vli(u) + _vli(n) for u, n in records)
    index += bytes((-len(index)) % 4)
    index += struct.pack("<I", zlib.crc32(index) & M32)
    out += index
    foot = struct.pack("<I", len(index) // 4 - 1) + flags
    out += struct.pack("<I", zlib.crc32(foot) & M32) + foot + b"YZ"
    blob = bytes(out)
    assert lzma.decompress(blob) == data, "hand-written .xz does not round-trip"
    return blob


def xz_cli_multiblock(data, block_size, threads=2):
    """the same class written by the xz tool itself, when it is installed"""
    exe = shutil.which("xz")
    if not exe:
        return None
    import subprocess
    try:
        r = subprocess.run([exe, "-T%d" % threads, "--block-size=%d" % block_size, "-c"], input=data, capture_output=True, timeout=60)
    except Exception:
        return None
    if r.returncode != 0 or lzma.decompress(r.stdout) != data:
        return None
    return r.stdout


def xz_block_sizes(rng, n, bs):
    """uncompressed sizes of the xz Blocks relative to the read block size: smaller, equal, larger"""
    style = rng.choice(["halves", "eq", "small", "large", "random"])
    if n <= 1:
        return [n] if n else []
    if style == "halves":
        a = n // 2
        return [a, n - a]
    unit = {"eq": bs, "small": max(1, bs // 3), "large": 2 * bs + 1}.get(style)
    if unit:
        out = [unit] * (n // unit) + ([n % unit] if n % unit else [])
        return out if len(out) <= 400 else [n // 2, n - n // 2]
    out, left = [], n
    while left > 0:
        x = min(left, rng.choice([1, max(1, bs - 1), bs, bs + 1, 3 * bs, rng.randrange(1, 5 * bs + 2)]))
        out.append(x)
        left -= x
        if len(out) > 300:
            out.append(left)
            break
    return [x for x in out if x > 0]


def xz_any(rng, data, bs):
    """one-block lzma.compress output, or a hand-written multi-block stream with/without size fields"""
    r = rng.random()
    if r < 0.3 or len(data) < 2:
        return xz_variant(rng, data)
    sizes = xz_block_sizes(rng, len(data), bs)
    ws = rng.random() < 0.7
    sf = rng.choice([(True, True), (True, True), (False, True), (True, False)])
    check = rng.choice(["crc32", "crc64", "crc64", "none"])
    return (xz_multiblock(data, sizes, with_sizes=ws, check=check, dict_bits=rng.choice([16, 20, 23]), preset=rng.choice([0, 6]), size_fields=sf),
            dict(xz_blocks=len(sizes), xz_block_sizes=sizes[:20], header_sizes=ws, size_fields=list(sf), check=check))


# ---- tar as `tar cf x.tar logs/` writes it: directory, symlink and hard-link entries before and
#      between the regular members, nested member paths
def tar_tree(rng, members, fmt=None, top="logs"):
    """members: [(file name, bytes)] regular files in archive order.
    returns (blob, [(member path, bytes)], meta)"""
    fmt = fmt if fmt is not None else rng.choice([tarfile.USTAR_FORMAT, tarfile.GNU_FORMAT, tarfile.PAX_FORMAT])
    subdirs = ["", "sub/", "sub/deep/", "e f/", "日本/"]
    bio = io.BytesIO()
    placed, layout = [], []
    with tarfile.open(fileobj=bio, mode="w", format=fmt) as tf:
        def add_dir(path):
            ti = tarfile.TarInfo(path.rstrip("/"))
            ti.type = tarfile.DIRTYPE
            ti.mode = 0o755
            ti.mtime = 1700000000
            tf.addfile(ti)
            layout.append("D")
        def add_sym(path, target):
            ti = tarfile.TarInfo(path)
            ti.type = tarfile.SYMTYPE
            ti.linkname = target
            tf.addfile(ti)
            layout.append("S")
        def add_hard(path, target):
            ti = tarfile.TarInfo(path)
            ti.type = tarfile.LNKTYPE
            ti.linkname = target
            tf.addfile(ti)
            layout.append("H")
        add_dir(top + "/")
        made = {""}
        if rng.random() < 0.5:
            add_sym(top + "/current.log", members[0][0])
        for k, (name, body) in enumerate(members):
            sd = rng.choice(subdirs)
            if fmt == tarfile.USTAR_FORMAT and not sd.isascii():
                sd = "sub/"
            if rng.random() < 0.15 and fmt != tarfile.USTAR_FORMAT:
                sd = "long" * 28 + "/"
            # the directories leading to the member come first, as tar emits them
            acc = ""
            for part in [x for x in sd.split("/") if x]:
                acc += part + "/"
                if acc not in made:
                    made.add(acc)
                    add_dir(top + "/" + acc)
            path = top + "/" + sd + name
            ti = tarfile.TarInfo(path)
            ti.size = len(body)
            ti.mtime = 1700000000 + k
            if fmt == tarfile.PAX_FORMAT and rng.random() < 0.5:
                ti.pax_headers = {"comment": "c%d" % k}
            tf.addfile(ti, io.BytesIO(body))
            layout.append("F")
            placed.append((path, body))
            r = rng.random()
            if r < 0.35:
                add_sym(top + "/" + sd + "ln%d.log" % k, name)
            elif r < 0.6:
                add_hard(top + "/" + sd + "hl%d.log" % k, path)
            elif r < 0.75:
                add_dir(top + "/" + sd + "emptydir%d/" % k)
        if rng.random() < 0.4:
            add_dir(top + "/zlast/")
    return bio.getvalue(), placed, dict(format=fmt, layout="".join(layout), members=len(members))


def tar_variant(rng, data, member=None, nmembers=None, pos=None, fmt=None):
    fmt = fmt if fmt is not None else rng.choice([tarfile.USTAR_FORMAT, tarfile.GNU_FORMAT, tarfile.PAX_FORMAT])
    nm = nmembers or rng.randrange(1, 6)
    pos = rng.randrange(nm) if pos is None else min(pos, nm - 1)
    member = member or rng.choice(["x.log", "d/x.log", "d/e f/x.log", "日本/x.log",
                                   "long" * 30 + "/x.log"])
    if fmt == tarfile.USTAR_FORMAT and len(member.encode()) > 100:
        member = "d/x.log"
    bio = io.BytesIO()
    with tarfile.open(fileobj=bio, mode="w", format=fmt) as tf:
        for k in range(nm):
            if k == pos:
                ti = tarfile.TarInfo(member)
                payload = data
            else:
                ti = tarfile.TarInfo("other%d.log" % k)
                payload = bytes(rng.randrange(32, 127) for _ in range(rng.choice([0, 1, 511, 512, 513, 1500])))
            ti.size = len(payload)
            ti.mtime = 1700000000 + k
            tf.addfile(ti, io.BytesIO(payload))
    return bio.getvalue(), member, dict(format=fmt, members=nm, pos=pos)


# ----------------------------------------------------------------------------- payloads
def random_plain(rng, n):
    r = rng.random()
    if r < 0.4:
        return bytes(rng.randrange(256) for _ in range(n))
    if r < 0.7:
        return (b"abcabcabd" * (n // 9 + 1))[:n]
    return bytes(rng.choice(b"ab \n") for _ in range(n))


def text_log(rng, nlines, tag, t0=1709634030, cont=0.15, dup=0.2):
    """(bytes, [epoch second of each message])"""
    import time
    out, times, t = [], [], t0
    for i in range(nlines):
        if rng.random() >= dup:
            t += rng.choice([1, 1, 2, 7, 60, 3600])
        stamp = time.strftime("%Y-%m-%d %H:%M:%S", time.gmtime(t))
        out.append(("%s %s message number %d %s\n" % (stamp, tag, i, "x" * rng.choice([0, 3, 20, 70]))).encode())
        times.append(t)
        if rng.random() < cont:
            out.append(b"    continuation of the message above, no digits pairs here\n")
    return b"".join(out), times


def utmp_file(rng, nrec, t0=1709634030):
    recs, t = [], t0
    for i in range(nrec):
        t += rng.choice([0, 1, 5, 60, 86400])
        r = struct.pack("<hxxi32s4s32s256shhiii16s20s", rng.choice([1, 2, 6, 7, 8]), 1000 + i,
                        b"pts/%d" % (i % 7), b"ts%d" % (i % 9), b"user%d" % (i % 5), b"host%d.example" % i,
                        0, 0, i, t, rng.randrange(1000000), bytes(16), bytes(20))
        assert len(r) == 384
        recs.append(r)
    return b"".join(recs)


# ----------------------------------------------------------------------------- B / C1: block level
def block_cases(ctx, scratch, quick):
    rng = ctx.rng
    cases = []          # dict(codec, bs, plain, sched, path, fta, meta)
    small_bs = [1, 2, 3, 5, 7, 16, 64, 100]
    n_per = 9 if quick else 60

    def sizes_for(bs):
        return [0, 1, max(1, bs - 1), bs, bs + 1, 2 * bs, 3 * bs - 1, 3 * bs + 1, 7 * bs, rng.randrange(1, 40 * bs + 2)]

    k = 0
    for codec in ["gz", "bz2", "xz", "lz4", "tar"]:
        for rep in range(n_per):
            bs = rng.choice(small_bs)
            for n in ([rng.choice(sizes_for(bs))] if rep >= 2 else sizes_for(bs)):
                n = min(n, 2600)
                plain = random_plain(rng, n)
                meta, sched, sub = {}, [rng.randrange(0, 3 * bs + 3) for _ in range(rng.randrange(0, 12))], None
                if codec == "gz":
                    blob, meta = gz_variant(rng, plain)
                elif codec == "bz2":
                    lvl = rng.randrange(1, 10)
                    blob, meta = bz2.compress(plain, lvl), dict(level=lvl)
                elif codec == "xz":
                    blob, meta = xz_any(rng, plain, bs)
                elif codec == "lz4":
                    style = rng.choice(["one", "aligned", "fixed", "random", "random"])
                    sched = split_sizes(rng, n, style, bs)
                    st = rng.choice([(True,), (False,), (True, False)])
                    blob = lz4_frame(plain, sched, bd=rng.choice([4, 5, 6, 7]), content_checksum=rng.random() < 0.5,
                                     content_size=rng.random() < 0.3, stored=st, block_checksum=rng.random() < 0.3)
                    meta = dict(style=style, stored=list(st), nblocks=len(sched))
                elif rng.random() < 0.5:
                    blob, sub, meta = tar_variant(rng, plain)
                else:
                    # `tar cf x.tar logs/`: non-file entries before and between the members; the wanted
                    # bytes first / middle / last among the regular files; EVERY regular member is read
                    nm = rng.randrange(1, 5)
                    pos = rng.choice([0, nm // 2, nm - 1])
                    mem = [("m%d.log" % j, plain if j == pos else random_plain(rng, rng.choice([1, bs, bs + 1, 3 * bs, 700]))) for j in range(nm)]
                    blob, placed, meta = tar_tree(rng, mem)
                    meta = dict(meta, wanted_pos=pos)
                    path = os.path.join(scratch, "b%05d.tar" % k)
                    open(path, "wb").write(blob)
                    for j, (mp, body) in enumerate(placed):
                        cases.append(dict(codec=codec, bs=bs, plain=body, sched=sched, path=path + "|" + mp, meta=dict(meta, member=j)))
                    k += 1
                    continue
                path = os.path.join(scratch, "b%05d.log.%s" % (k, "tar" if codec == "tar" else codec))
                open(path, "wb").write(blob)
                cases.append(dict(codec=codec, bs=bs, plain=plain, sched=sched, path=path + ("|" + sub if sub else ""), meta=meta))
                k += 1
    # gz BUF_SZ (2056) chunking and larger blocks
    for bs, n in [(2056, 2056 * 3), (2057, 2057 * 2 + 5), (5000, 12000), (4112, 4112)] + ([] if quick else [(6000, 30000), (2055, 9000)]):
        for codec in ["gz", "bz2", "tar"]:
            plain = random_plain(rng, n)
            sub = None
            if codec == "gz":
                blob, meta = gz_variant(rng, plain)
            elif codec == "bz2":
                blob, meta = bz2.compress(plain, 1), dict(level=1)
            else:
                blob, sub, meta = tar_variant(rng, plain)
            path = os.path.join(scratch, "b%05d.log.%s" % (k, "tar" if codec == "tar" else codec))
            open(path, "wb").write(blob)
            cases.append(dict(codec=codec, bs=bs, plain=plain, sched=[1, 2055, 1, 3000], path=path + ("|" + sub if sub else ""), meta=meta))
            k += 1
    return cases


def lz4flex_cases(ctx, scratch, quick):
    """frames written by the lz4_flex crate itself (64 KiB internal blocks, linked / independent)"""
    rng = ctx.rng
    out = []
    specs = [(70000, 4, 0, 1000), (67000, 4, 1, 4096)] + ([] if quick else [(140000, 4, 1, 8192), (300000, 5, 1, 6000), (131072, 4, 0, 4096), (200000, 4, 1, 3000)])
    lines = []
    for j, (n, bd, linked, bs) in enumerate(specs):
        plain = text_log(rng, n // 60 + 5, "flex")[0][:n]
        src = os.path.join(scratch, "f%d.log" % j)
        dst = src + ".lz4"
        open(src, "wb").write(plain)
        lines.append("lz4enc\t%s\t%s\t%d\t%d\t%d" % (hx(src.encode()), hx(dst.encode()), bd, linked, j % 2))
        mx = LZ4_BD_MAX[bd]
        sched = [mx] * (len(plain) // mx) + ([len(plain) % mx] if len(plain) % mx else [])
        out.append(dict(codec="lz4", bs=bs, plain=plain, sched=sched, path=dst, meta=dict(writer="lz4_flex", bd=bd, linked=linked),
                        subset=True))
    res, err = vlib.harness("c05", lines)
    if res is None or any(not r.startswith("OK") for r in res):
        return None, err or str(res)
    return out, ""


def requests_for(rng, case):
    n, bs = len(case["plain"]), case["bs"]
    nb = (n + bs - 1) // bs
    if case.get("subset"):
        idx = sorted(set([0, 1, nb - 1, nb] + [b for s in [sum(case["sched"][:j + 1]) // bs for j in range(len(case["sched"]))] for b in (s - 1, s, s + 1) if 0 <= b <= nb]))
        return idx, idx
    seq = list(range(nb + 2))
    if nb:
        seq.insert(rng.randrange(len(seq)), seq[rng.randrange(len(seq))])   # one repeated request, still ascending? keep sorted
        seq.sort()
    rnd = [rng.randrange(nb + 2) for _ in range(min(nb + 3, 40))]
    return seq, rnd


def parse_blocks(line):
    if not line.startswith("OK "):
        return None
    f = line.split(" ")
    res = []
    for t in f[3:]:
        i, k, h = t.split(":")
        res.append((int(i), {"F": 0, "D": 1, "E": 2}[k], h))
    return int(f[1]), int(f[2]), res


def hexlist(h):
    return "[" + "; ".join('"%s"' % h[i:i + 4096] for i in range(0, len(h), 4096)) + "]"


def coq_case(c, aux, results):
    return '(%d%%N, %d%%N, %s, [%s], %d%%N, [%s])' % (
        CODEC[c["codec"]], c["bs"], hexlist(hx(c["plain"])), "; ".join("%d%%N" % s for s in c["sched"]), aux,
        "; ".join('(%d%%N, %d%%N, %s)' % (r[0], r[1], hexlist(r[2])) for r in results))


def run_blocks(ctx, scratch, quick):
    rng = ctx.rng
    cases = block_cases(ctx, scratch, quick)
    flex, err = lz4flex_cases(ctx, scratch, quick)
    if flex is None:
        ctx.obligation_broken("correspondence", "harness c05 lz4enc", err)
        flex = []
    cases += flex
    lines, plan = [], []
    for ci, c in enumerate(cases):
        seq, rnd = requests_for(rng, c)
        modes = [(1, seq), (0, rnd)]
        if c["codec"] in ("gz", "bz2", "lz4") and not c.get("subset"):
            modes.append((2, [rng.randrange(len(seq)) for _ in range(min(len(seq) + 2, 24))]))   # drop ON, any order
        for mode, idx in modes:
            lines.append("blocks\t%s\t%d\t%d\t%d\t%s" % (hx(c["path"].encode()), FTA[c["codec"]], c["bs"], 1 if mode else 0, ",".join(map(str, idx))))
            plan.append((ci, mode))
    outl, err = vlib.harness("c05", lines, timeout=900)
    if outl is None or len(outl) != len(lines):
        ctx.obligation_broken("correspondence", "harness c05 run", err)
        return dict(block_cases=0)
    rows = []           # (case index, mode, coq text, results)
    filesz_seen = set()
    seq_rows = []       # the same for one reader serving requests in any order with the drop on
    bad_new = 0
    for (ci, mode), o in zip(plan, outl):
        p = parse_blocks(o)
        c = cases[ci]
        if p is None:
            bad_new += 1
            ctx.failure(dict(level="block", codec=c["codec"], bs=c["bs"], plain_hex=hx(c["plain"][:4000]), meta=c["meta"], path=c["path"]),
                        "BlockReader::new succeeds on a valid stored file", o[:300])
            continue
        filesz, nread, results = p
        if filesz != len(c["plain"]) and ci not in filesz_seen:
            filesz_seen.add(ci)
            fpath = c["path"].split("|")[0]
            ctx.failure(dict(level="block", what="uncompressed size", codec=c["codec"], bs=c["bs"], n=len(c["plain"]), plain_hex=hx(c["plain"][:20000]), meta=c["meta"],
                             drop_enabled=mode, path=c["path"], file_hex=hx(open(fpath, "rb").read()) if os.path.getsize(fpath) <= 40000 else None),
                        "filesz %d" % len(c["plain"]), "filesz %d" % filesz)
        (seq_rows if mode == 2 else rows).append((ci, mode, coq_case(c, nread if c["codec"] == "xz" else 0, results), results))
    hdr = vlib.COQ_PRINT_HDR + "From Coq Require Import String List NArith.\nImport ListNotations.\nFrom S4.Corr Require Import C05.\nOpen Scope string_scope.\n"
    shards = vlib.shard(list(range(len(rows))), vlib.NCPU)
    # balance: big cases first spread
    order = sorted(range(len(rows)), key=lambda i: -len(rows[i][2]))
    shards = [order[j::vlib.NCPU] for j in range(vlib.NCPU) if order[j::vlib.NCPU]]
    model_dis, spec_dis, seq_dis = [], [], []
    seq_shards = [list(range(len(seq_rows)))[j::len(shards)] for j in range(len(shards))]
    texts = [hdr + "Definition cases : list case_t := [\n%s\n].\nEval vm_compute in (model_bad cases).\nEval vm_compute in (spec_bad cases).\n" % ";\n".join(rows[i][2] for i in sh)
             + "Definition seqcases : list case_t := [\n%s\n].\nEval vm_compute in (seq_bad seqcases).\n" % ";\n".join(seq_rows[i][2] for i in ssh)
             for sh, ssh in zip(shards, seq_shards)]
    res = vlib.coq_eval_shards(os.path.join(CACHE, "cases", "C05", "blocks"), texts)
    import re
    for sh, (rc, out) in zip(shards, res):
        parts = re.findall(r"=\s*(\[.*?\])\s*:\s*list", out, flags=re.S) if rc == 0 else []
        if len(parts) != 3:
            ctx.obligation_broken("correspondence", "coqc on C05 block cases (model_bad / spec_bad / seq_bad)", out)
            break
        for acc, body in ((model_dis, parts[0]), (spec_dis, parts[1])):
            for t in re.findall(r"\(([^()]*)\)", body):
                k, v = [int(x) for x in re.findall(r"\d+", t)]
                acc.append((sh[k], v))
        ssh = seq_shards[shards.index(sh)]
        for t in re.findall(r"\(([^()]*)\)", parts[2]):
            k, v = [int(x) for x in re.findall(r"\d+", t)]
            seq_dis.append(ssh[k])
    if seq_dis:
        ci, mode, _, results = seq_rows[seq_dis[0]]
        c = cases[ci]
        ctx.obligation_broken("correspondence", "one BlockReader serving requests in any order (look-behind drop on) vs Model.Assemble.read_blocks_m (codec %s)" % c["codec"],
                              json.dumps(dict(codec=c["codec"], bs=c["bs"], n=len(c["plain"]), plain_hex=hx(c["plain"][:2000]), sched=c["sched"][:50],
                                              requests_and_results=[(r[0], r[1]) for r in results], meta=c["meta"], disagreements=len(seq_dis))))
    if model_dis:
        ri, v = model_dis[0]
        ci, mode, _, results = rows[ri]
        c = cases[ci]
        ctx.obligation_broken("correspondence", "BlockReader::read_block vs Model.Assemble (codec %s)" % c["codec"],
                              json.dumps(dict(codec=c["codec"], bs=c["bs"], n=len(c["plain"]), plain_hex=hx(c["plain"][:2000]), sched=c["sched"][:50],
                                              drop_enabled=mode, code=v, meta=c["meta"], disagreements=len(model_dis))))
    seen = set()
    for ri, v in spec_dis:
        ci, mode, _, results = rows[ri]
        if ci in seen or ci in filesz_seen:
            continue
        seen.add(ci)
        c = cases[ci]
        n, bs = len(c["plain"]), c["bs"]
        cls = ["lz4_frame_block_boundary_inside_read_block"] if (c["codec"] == "lz4" and lz4_misaligned(c["sched"], bs, n)) else []
        blk = v // 100
        got = [r for r in results if r[0] == blk][:1]
        fpath = c["path"].split("|")[0]
        ctx.failure(dict(level="block", codec=c["codec"], bs=bs, n=n, plain_hex=hx(c["plain"][:20000]), lz4_internal_block_sizes=c["sched"][:60] if c["codec"] == "lz4" else None,
                         meta=c["meta"], drop_enabled=mode, block=blk, path=c["path"],
                         file_hex=hx(open(fpath, "rb").read()) if os.path.getsize(fpath) <= 40000 else None),
                    "block %d = %s" % (blk, hx(c["plain"][blk * bs:(blk + 1) * bs])[:200] or "Done"),
                    "kind %s %s" % (got[0][1], got[0][2][:200]) if got else "?", cls)
    hist = {}
    for c in cases:
        hist[c["codec"]] = hist.get(c["codec"], 0) + 1
    nontriv = set()
    for c in cases:
        n, bs = len(c["plain"]), c["bs"]
        if n > bs:
            nontriv.add((c["codec"], bs, n, hx(c["plain"][:16]), json.dumps(c["meta"], sort_keys=True, default=str)))
    size_classes = dict(zero=0, one_block_or_less=0, exact_multiple=0, multi_block=0)
    for c in cases:
        n, bs = len(c["plain"]), c["bs"]
        if n == 0:
            size_classes["zero"] += 1
        elif n <= bs:
            size_classes["one_block_or_less"] += 1
        elif n % bs == 0:
            size_classes["exact_multiple"] += 1
        else:
            size_classes["multi_block"] += 1
    return dict(block_cases=len(cases), block_reader_runs=len(rows), block_results_compared=sum(len(r[3]) for r in rows),
                block_codec_histogram=hist, block_size_classes=size_classes, block_model_disagreements=len(model_dis), block_sequence_runs=len(seq_rows), block_sequence_disagreements=len(seq_dis),
                block_sequence_done_for_existing_block=sum(1 for r in seq_rows for x in r[3] if x[1] == 1 and x[0] * cases[r[0]]["bs"] < len(cases[r[0]]["plain"])),
                block_spec_failures=len(spec_dis), block_new_errors=bad_new, block_nontrivial=len(nontriv),
                block_sample=dict(codec=cases[0]["codec"], bs=cases[0]["bs"], n=len(cases[0]["plain"]), meta=cases[0]["meta"]))


def fixedstruct_streamed_multi_block(kind, form, n, bs):
    """known-finding class: an accounting-record (FixedStruct) payload stored as gz / bz2 / lz4 whose
    uncompressed size exceeds one read block"""
    return kind == "utmp" and (form in ("gz", "bz2") or form.startswith("lz4")) and n > bs


# ----------------------------------------------------------------------------- C2: end to end
def s4(args, inp=None, timeout=120):
    return vlib.run_s4(["--color", "never"] + args, timeout=timeout, env=ENV, inp=inp)


def write_forms(ctx, scratch, base, suffix, plain, forms, lz4_styles=("one",), bs_for_lz4=4096):
    """write plain as <base><suffix> and the stored forms; returns {label: (path-arg, class info)}"""
    rng = ctx.rng
    d = os.path.join(scratch, base)
    os.makedirs(d, exist_ok=True)
    name = "x" + suffix
    out = {}
    p = os.path.join(d, name)
    open(p, "wb").write(plain)
    out["plain"] = (p, None)
    for f in forms:
        if f == "gz":
            blob, meta = gz_variant(rng, plain)
            q = p + ".gz"
        elif f == "bz2":
            lvl = rng.randrange(1, 10)
            blob, meta = bz2.compress(plain, lvl), dict(level=lvl)
            q = p + ".bz2"
        elif f == "xz":
            blob, meta = xz_variant(rng, plain)
            q = p + ".xz"
        elif f == "tar":
            blob, member, meta = tar_variant(rng, plain, member=name)
            q = os.path.join(d, "x.tar")
        elif f == "tarpipe":       # member path containing the sub-path separator '|'
            blob, member, meta = tar_variant(rng, plain, member="p|" + name)
            os.makedirs(os.path.join(d, "pipe"), exist_ok=True)
            q = os.path.join(d, "pipe", "x.tar")
        elif f.startswith("lz4"):
            continue
        open(q, "wb").write(blob)
        out[f] = (q, dict(meta=meta))
    if "xz" in forms and len(plain) >= 2:
        n = len(plain)
        unit = 100 if n <= 40000 else max(100, n // 7)
        variants = [("xzmb_halves", [n // 2, n - n // 2], True, (True, True), "crc64"),
                    ("xzmb_unit", [unit] * (n // unit) + ([n % unit] if n % unit else []), True, rng.choice([(True, True), (False, True), (True, False)]), "crc32"),
                    ("xzmb_nosz", xz_block_sizes(rng, n, rng.choice([64, 100, 4096])), False, (False, False), rng.choice(["none", "crc64"]))]
        for lab2, sizes, ws, sf, chk in variants:
            dd = os.path.join(d, lab2)
            os.makedirs(dd, exist_ok=True)
            q = os.path.join(dd, name + ".xz")
            open(q, "wb").write(xz_multiblock(plain, sizes, with_sizes=ws, check=chk, size_fields=sf, dict_bits=rng.choice([16, 20, 23])))
            out[lab2] = (q, dict(xz_block_sizes=sizes[:30], xz_blocks=len(sizes), header_sizes=ws, size_fields=list(sf), check=chk))
        blob = xz_cli_multiblock(plain, max(4096, n // 3)) if n > 8192 else None
        if blob:
            dd = os.path.join(d, "xz_cli")
            os.makedirs(dd, exist_ok=True)
            q = os.path.join(dd, name + ".xz")
            open(q, "wb").write(blob)
            out["xz_cli"] = (q, dict(writer="xz -T2 --block-size=%d" % max(4096, n // 3)))
    if any(f.startswith("lz4") for f in forms):
        for style in lz4_styles:
            sizes = split_sizes(rng, len(plain), style, bs_for_lz4)
            mx = LZ4_BD_MAX[7] - 65536      # literal-only 'compressed' blocks carry ~16 KiB of length bytes
            sizes = [s2 for s in sizes for s2 in ([mx] * (s // mx) + ([s % mx] if s % mx else []))]
            dd = os.path.join(d, "lz4_" + style)
            os.makedirs(dd, exist_ok=True)
            q = os.path.join(dd, name + ".lz4")
            open(q, "wb").write(lz4_frame(plain, sizes, bd=7, content_checksum=True, stored=(True, False)))
            out["lz4_" + style] = (q, dict(lz4_sizes=sizes))
    return out


def msg_offsets(plain):
    """[(byte offset, epoch second)] of the dated lines of a text payload written by text_log"""
    import calendar, re, time
    out, off = [], 0
    for ln in plain.split(b"\n"):
        m = re.match(rb"(\d{4}-\d\d-\d\d \d\d:\d\d:\d\d) ", ln)
        if m:
            out.append((off, calendar.timegm(time.strptime(m.group(1).decode(), "%Y-%m-%d %H:%M:%S"))))
        off += len(ln) + 1
    return out


def write_tree_group(ctx, scratch, lab, suf, plain, kind, k):
    """an archive as `tar cf x.tar logs/` writes it (directory / symlink / hard-link entries before and
    between the members) holding the payload and two companions; reference = the members' bytes as
    plain files, named in member order.  Returns (plain paths, tar path, info)."""
    rng = ctx.rng
    pos = k % 3          # wanted member first / middle / last among the regular files
    others = []
    for j in range(2):
        if kind == "text":
            others.append(text_log(rng, rng.choice([1, 3, 30]), "companion%d" % j)[0])
        else:
            others.append(utmp_file(rng, rng.choice([1, 2, 5])))
    bodies = others[:]
    bodies.insert(pos, plain)
    members = [("m%d%s" % (j, suf), b) for j, b in enumerate(bodies)]
    fmt = [tarfile.USTAR_FORMAT, tarfile.GNU_FORMAT, tarfile.PAX_FORMAT][(k // 3) % 3]
    blob, placed, meta = tar_tree(rng, members, fmt=fmt)
    d = os.path.join(scratch, lab + "_tree")
    os.makedirs(d, exist_ok=True)
    paths = []
    for name, b in members:
        q = os.path.join(d, name)
        open(q, "wb").write(b)
        paths.append(q)
    t = os.path.join(d, "x.tar")
    open(t, "wb").write(blob)
    return paths, t, dict(meta=dict(meta, wanted_pos=pos), members=[m[0] for m in placed])


def e2e(ctx, scratch, quick):
    rng = ctx.rng
    payloads = []   # (label, suffix, plain bytes, times or None, kind)
    text_sizes = [0, 1, 3, 8, 40, 200] + ([] if quick else [2, 5, 20, 90, 1000])
    for j, nl in enumerate(text_sizes):
        b, times = text_log(rng, nl, "t%d" % j)
        payloads.append(("text%d" % j, ".log", b, times, "text"))
    # tiny / undated / no final newline
    payloads.append(("tiny5", ".log", b"abcd\n", [], "text"))
    payloads.append(("tiny6", ".log", b"abcde\n", [], "text"))
    b, times = text_log(rng, 12, "nonl")
    payloads.append(("nonl", ".log", b[:-1], times, "text"))
    for j, nr in enumerate([1, 3, 40] if quick else [1, 2, 3, 10, 40, 200]):
        payloads.append(("utmp%d" % j, ".utmp", utmp_file(rng, nr), None, "utmp"))
    payloads.append(("utmpbig", ".wtmp", utmp_file(rng, 200), None, "utmp"))
    fx = os.path.join(vlib.REPO, "logs")
    fixtures = [("wtmpfx", ".wtmp", os.path.join(fx, "Ubuntu22/x86_64/wtmp"), "utmp"),
                ("evtxfx", ".evtx", os.path.join(fx, "programs/evtx/Microsoft-Windows-Kernel-PnP%4Configuration.evtx"), "evtx")]
    for lab, suf, path, kind in fixtures:
        if os.path.exists(path):
            payloads.append((lab, suf, open(path, "rb").read(), None, kind))
    jx = os.path.join(fx, "programs/journal/Ubuntu22-user-1000x3.journal.xz")
    if os.path.exists(jx):
        payloads.append(("journalfx", ".journal", lzma.decompress(open(jx, "rb").read()), None, "journal"))

    runs = []       # (payload label, form label, [paths], args, class info, blocksz, size, kind)
    tree_k = 0
    blockszs_text = [64, 100, 4096, 65536] if quick else [64, 65, 100, 512, 1000, 4096, 65536, 0x20000]
    for lab, suf, plain, times, kind in payloads:
        if kind == "text":
            forms = write_forms(ctx, scratch, lab, suf, plain, ["gz", "bz2", "xz", "tar", "lz4"] + (["tarpipe"] if lab in ("text3", "text4") else []),
                                lz4_styles=("one", "aligned", "random"), bs_for_lz4=4096)
            bss = blockszs_text
        elif kind == "utmp":
            forms = write_forms(ctx, scratch, lab, suf, plain, ["gz", "bz2", "xz", "tar", "lz4"], lz4_styles=("one",))
            bss = [64, 384, 1000, 65536] if quick else [64, 383, 384, 385, 1000, 4096, 65536]
        else:
            forms = write_forms(ctx, scratch, lab, suf, plain, ["gz", "bz2", "xz", "tar", "lz4"], lz4_styles=("one",))
            bss = [65536]
        # windows from the plain run's own instants
        rc, so, se = s4(["-u", "-d", "%s", forms["plain"][0]])
        stamps = []
        for ln in so.split(b"\n"):
            h = ln.split(b":", 1)[0]
            if h.isdigit():
                stamps.append(int(h))
        stamps = sorted(set(stamps))
        wins = [[]]
        if stamps:
            lo, mid, hi = stamps[0], stamps[len(stamps) // 2], stamps[-1]
            wins += [["-a", "+%d" % mid], ["-b", "+%d" % mid], ["-a", "+%d" % stamps[len(stamps) // 4], "-b", "+%d" % stamps[(3 * len(stamps)) // 4]],
                     ["-a", "+%d" % (hi + 1)], ["-b", "+%d" % (lo - 1)], ["-a", "+%d" % hi, "-b", "+%d" % hi]]
            if kind in ("evtx", "journal") or quick:
                wins = wins[:4] if kind in ("evtx", "journal") else wins
            if kind == "text":
                # windows that select only the messages of the 2nd / of the last xz Block
                mo = msg_offsets(plain)
                n = len(plain)
                for boundary in (n // 2, ((n - 1) // 100) * 100):
                    later = [t for off, t in mo if off >= boundary]
                    if later and ["-a", "+%d" % later[0]] not in wins:
                        wins.append(["-a", "+%d" % later[0]])
        tree = None
        if kind in ("text", "utmp") and len(plain) > 0:
            tree = write_tree_group(ctx, scratch, lab, suf, plain, kind, tree_k)
            tree_k += 1
        for bs in bss:
            for w in wins:
                for flab, (path, info) in forms.items():
                    runs.append((lab, flab, [path], ["--blocksz", str(bs)] + w, info, bs, len(plain), kind))
                if tree:
                    runs.append((lab + "@tree", "plain", tree[0], ["--blocksz", str(bs)] + w, None, bs, len(plain), kind))
                    runs.append((lab + "@tree", "tartree", [tree[1]], ["--blocksz", str(bs)] + w, tree[2], bs, len(plain), kind))
    # lz4 frames written by the lz4_flex crate: 64 KiB internal blocks
    big, times = text_log(rng, 2600 if quick else 6000, "big")
    d = os.path.join(scratch, "bigflex")
    os.makedirs(d, exist_ok=True)
    src = os.path.join(d, "x.log")
    open(src, "wb").write(big)
    os.makedirs(os.path.join(d, "z"), exist_ok=True)
    dst = os.path.join(d, "z", "x.log.lz4")
    res, err = vlib.harness("c05", ["lz4enc\t%s\t%s\t4\t1\t1" % (hx(src.encode()), hx(dst.encode()))])
    if res and res[0].startswith("OK"):
        sizes = [65536] * (len(big) // 65536) + ([len(big) % 65536] if len(big) % 65536 else [])
        for bs in [65536, 32768, 0x20000, 1000]:
            for w in ([], ["-a", "+%d" % times[len(times) // 2]]):
                runs.append(("bigflex", "plain", [src], ["--blocksz", str(bs)] + w, None, bs, len(big), "text"))
                runs.append(("bigflex", "lz4_flex", [dst], ["--blocksz", str(bs)] + w, dict(lz4_sizes=sizes), bs, len(big), "text"))
    else:
        ctx.obligation_broken("correspondence", "harness c05 lz4enc (end to end)", err)

    def one(r):
        return s4(r[3] + r[2], timeout=180)
    with ThreadPoolExecutor(max_workers=vlib.NCPU) as ex:
        outs = list(ex.map(one, runs))
    ref = {}
    for r, o in zip(runs, outs):
        if r[1] == "plain":
            ref[(r[0], tuple(r[3]))] = o
    compared = agree_nonempty = agree_empty = rc_differs = 0
    fails = 0
    form_hist, kind_hist, fail_hist = {}, {}, {}
    nontriv = set()
    for r, o in zip(runs, outs):
        lab, flab, path, args, info, bs, n, kind = r
        if flab == "plain":
            continue
        p = ref[(lab, tuple(args))]
        compared += 1
        form_hist[flab] = form_hist.get(flab, 0) + 1
        kind_hist[kind] = kind_hist.get(kind, 0) + 1
        if o[0] == 124 or p[0] == 124:
            ctx.failure(dict(level="stdout", payload=lab, form=flab, args=args, path=path, plain_path=ref_path(runs, lab)), "terminates", "timeout")
            continue
        if o[1] == p[1]:
            if p[1]:
                agree_nonempty += 1
                nontriv.add((lab, flab, tuple(args)))
            else:
                agree_empty += 1
            if o[0] != p[0]:
                rc_differs += 1
            continue
        fails += 1
        cls = []
        if flab.startswith("lz4") and info and lz4_misaligned(info["lz4_sizes"], bs, n):
            cls = ["lz4_frame_block_boundary_inside_read_block"]
        if flab == "tarpipe":
            cls.append("tar_member_path_contains_separator")
        if fixedstruct_streamed_multi_block(kind, flab, n, bs):
            cls.append("fixedstruct_streamed_multi_block")
        fail_hist[(kind, flab, bs, bool(cls))] = fail_hist.get((kind, flab, bs, bool(cls)), 0) + 1
        if True:
            rp = ref_path(runs, lab)
            ctx.failure(dict(level="stdout", payload=lab, kind=kind, form=flab, args=args, path=path, plain_path=rp,
                             n=n, blocksz=bs, info=info,
                             files_hex=({os.path.basename(q): hx(open(q, "rb").read()) for q in rp + path} if sum(os.path.getsize(q) for q in rp + path) <= 40000 else None)),
                        "stdout of the plain file (%d bytes, sha %s)" % (len(p[1]), vlib.hashlib.sha1(p[1]).hexdigest()[:12]),
                        "stdout %d bytes, sha %s, rc %d" % (len(o[1]), vlib.hashlib.sha1(o[1]).hexdigest()[:12], o[0]), cls)
    return dict(stdout_runs=len(runs), stdout_comparisons=compared, stdout_agree_nonempty=agree_nonempty, stdout_agree_empty=agree_empty,
                stdout_exit_status_differs_with_equal_stdout=rc_differs, stdout_failures=fails, stdout_failure_histogram={str(k): v for k, v in sorted(fail_hist.items())}, stdout_form_histogram=form_hist,
                stdout_payload_kind_histogram=kind_hist, stdout_nontrivial=len(nontriv), payloads=len(payloads))


def ref_path(runs, lab):
    for r in runs:
        if r[0] == lab and r[1] == "plain":
            return r[2]
    return None


# ----------------------------------------------------------------------------- entry points
def run(ctx):
    quick = ctx.quick()
    vlib.proof_stage(ctx, PROP_FILE, [], extra_targets=["Corr/C05.vo", "Corr/C05c.vo"])
    ok, log = vlib.build_harness("c05")
    if not ok:
        ctx.obligation_broken("build", "harness c05", log)
        return ctx.finish()
    ok, log = vlib.build_s4()
    if not ok:
        ctx.obligation_broken("build", "s4", log)
        return ctx.finish()
    scratch = vlib.scratch_dir("C05")
    cov = {}
    import time
    t0 = time.time()
    cov.update(run_blocks(ctx, scratch, quick))
    t1 = time.time()
    cov.update(e2e(ctx, scratch, quick))
    t2 = time.time()
    # WP-J: the container handling s4 does itself (BlockReader::new, process_path_tar, decompress_to_ntf)
    import c05_glue
    gscratch = os.path.join(scratch, "glue")
    os.makedirs(gscratch, exist_ok=True)
    cov.update(c05_glue.run(ctx, gscratch, quick))
    cov.update(c05_glue.e2e(ctx, gscratch, quick))
    t3 = time.time()
    cov.update(c05_glue.big_blocks(ctx, gscratch, quick))
    cov["large_block_seconds"] = round(time.time() - t3, 1)
    cov["phase_seconds"] = dict(blocks=round(t1 - t0, 1), end_to_end=round(t2 - t1, 1), container_glue=round(time.time() - t2, 1))
    order, seen_lv = [], {}
    for f in ctx.failures:
        lv = f["case"].get("level")
        seen_lv[lv] = seen_lv.get(lv, 0) + 1
        order.append((seen_lv[lv], 0 if lv == "stdout" else 1))
    ctx.failures = [f for _, f in sorted(zip(order, ctx.failures), key=lambda t: t[0])]
    ctx.coverage.update(cov)
    ctx.coverage.update(
        evaluations=cov.get("block_results_compared", 0) + cov.get("stdout_comparisons", 0) + cov.get("glue_file_cases", 0) + cov.get("glue_tar_member_readers", 0)
        + cov.get("glue_ntf_cases", 0) + cov.get("glue_stdout_runs", 0),
        distinct_nontrivial=cov.get("block_nontrivial", 0) + cov.get("stdout_nontrivial", 0),
        rule="block level: one case = (codec, block size, plain bytes, encoder parameters); every block index 0..last+1 read in ascending order with the production look-behind drop and again in random order with repeats with drop disabled, each result compared with the Coq model and with chunk bs plain; non-trivial = more than one block; distinct by (codec, bs, size, content prefix, parameters). end to end: one comparison = (payload, stored form, block size, window): stdout of the stored form vs stdout of the plain file; non-trivial = both non-empty and equal; distinct by (payload, form, arguments)",
        samples=[cov.get("block_sample")])
    ctx.assumptions += [
        "decoders (flate2, bzip2-rs, lz4_flex, lzma-rs, tar) are oracles: theorems assume only the read contract R1/R2 (prefix of the remaining plain stream, no longer than requested; empty only at end of stream); decoder correctness is sampled by B/C, not proved",
        "declared size: gzip ISIZE (mod 2^32, single member), tar header size, measured pre-pass for bz2/lz4/xz — now derived inside the model from the file bytes (Model/Containers.v) and tied by the container-glue run; multi-member gzip, multi-stream xz (modelled, B only) and files over 4 GiB (arithmetic lemma) are outside the property's quantifier",
        "the tar crate's entry list (entries / entries_with_seek: path as to_string_lossy, typeflag, entry.size(), header().size(), header().mtime(), data) is the oracle of the s4-side tar model; for archives without GNU/pax extension records it is also compared with the reference header parser tar_ref_list",
        "container files are given the mtime 1600000000.123456789 so that 'mtime() = the file's own' is distinguishable from every header time used",
        "python zlib/bz2/lzma/tarfile and the lz4 frame writer in this file (stored and literal-only blocks; xxh32) and lz4_flex's FrameEncoder produce valid single-stream files",
        "stdout comparison uses --color never, TZ=UTC, default --tz-offset; exit status is not part of the property (plain files of <= 5 bytes are refused with status 1, their stored forms are read and print nothing with status 0)",
        "journal / evtx payloads go through decompress_to_ntf (model: drain loop); their readers are C09 / C10",
    ]
    return ctx.finish()


def replay(ctx, path):
    """re-run the recorded failing inputs.  The failing run's files are kept under replays/C05-files/
    (small ones are also embedded in the replay as hex and re-created when missing)."""
    r = json.load(open(path))
    ok, log = vlib.build_harness("c05")
    ok2, log2 = vlib.build_s4()
    bad = 0
    for f in r.get("failures", []):
        c = f["case"]
        if c.get("level") == "stdout":
            plain_paths, stored = c.get("plain_path") or [], c.get("path") or []
            for q in plain_paths + stored:
                if not os.path.exists(q) and c.get("files_hex") and os.path.basename(q) in c["files_hex"]:
                    os.makedirs(os.path.dirname(q), exist_ok=True)
                    open(q, "wb").write(bytes.fromhex(c["files_hex"][os.path.basename(q)]))
            if all(os.path.exists(q) for q in plain_paths + stored):
                a = s4(c["args"] + plain_paths)
                b = s4(c["args"] + stored)
                print("replay stdout form=%s args=%s files=%s: plain %d bytes, stored %d bytes, equal=%s" % (c.get("form"), c["args"], stored, len(a[1]), len(b[1]), a[1] == b[1]))
                if a[1] != b[1]:
                    bad += 1
            else:
                print("replay: files of the failing run are gone; re-run ./check C05 with VERIF_SEED=%s" % r.get("seed"))
                bad += 1
        elif c.get("level") == "bigblock":
            import c05_glue
            if c05_glue.replay_big(c):
                bad += 1
        elif c.get("level") == "glue":
            import c05_glue
            if c05_glue.replay_case(c):
                bad += 1
        elif c.get("level") == "block":
            p = c.get("path")
            if p and not os.path.exists(p.split("|")[0]) and c.get("file_hex"):
                os.makedirs(os.path.dirname(p.split("|")[0]), exist_ok=True)
                open(p.split("|")[0], "wb").write(bytes.fromhex(c["file_hex"]))
            if p and os.path.exists(p.split("|")[0]) and len(c["plain_hex"]) == 2 * c["n"]:
                nb = (c["n"] + c["bs"] - 1) // c["bs"]
                outl, err = vlib.harness("c05", ["blocks\t%s\t%d\t%d\t%d\t%s" % (hx(p.encode()), FTA[c["codec"]], c["bs"], 1 if c.get("drop_enabled") else 0, ",".join(map(str, range(nb + 1))))])
                plain = bytes.fromhex(c["plain_hex"])
                got = parse_blocks(outl[0]) if outl else None
                okb = got is not None and got[0] == c["n"] and all((k == 0 and bytes.fromhex(h) == plain[i * c["bs"]:(i + 1) * c["bs"]]) if i < nb else k == 1 for i, k, h in got[2])
                print("replay block-level codec=%s bs=%s n=%s file=%s: blocks equal chunk = %s" % (c["codec"], c["bs"], c["n"], p, okb))
                if not okb:
                    bad += 1
            else:
                print("replay block-level case codec=%s bs=%s n=%s block=%s: file gone; re-run ./check C05 with VERIF_SEED=%s" % (c.get("codec"), c.get("bs"), c.get("n"), c.get("block"), r.get("seed")))
                bad += 1
    if bad:
        print("VIOLATION property=C05 replay=%s" % path)
        return 1
    return 0
