"""C06 — output is independent of thread scheduling and the run always ends.

A. Coq: Props/C06.v — the worker / bounded channel / coordinator transition system
   (Model/Coord.v), for every number of sources, every message list, every capacity >= 1
   and every interleaving: invariant, no deadlock, strictly decreasing measure (every
   execution finite), unique final output = merge, every source drained; CHANNEL_CAPACITY
   regenerated from the source and `capacity_pos` re-proved.
B. tie: traces of the real processing_loop under planned schedules (S4_VERIF_PLAN /
   S4_VERIF_TRACE, hook H1) must be reproduced by Model.Coord.coord_replay at the
   regenerated capacity: every receive permitted by the model, identical print and
   disconnect events.
C. failing-input search (independent of the model): for each input, stdout and exit status
   must be byte-identical across all schedules, every run must end within the time bound,
   and nothing may be missing (stdout = rendering of the k-way merge; order also checked
   against the Coq spec `merge`).
"""
import hashlib, json, os, re
import vlib
import merge_util as mu

PROP = "C06"
OPTS = [[], ["-n"], ["-n", "-w"], ["-p"], ["-n", "-u", "-d", "%s%.9f"], ["-n"]]
IMPORTS = "From S4.Corr Require Import C06."
TIME_BOUND = 60


def plans_for(rng, inp, k, cls):
    names = [s["name"] for s in inp["sources"]]
    sd = lambda: rng.randrange(1 << 30)
    if cls == "blocked":
        # every send of the slow source takes 2.6-3.5 s: the fast worker stays blocked on its
        # full channel for seconds; the unplanned run is the reference
        sl = inp["slow_name"]
        return [None,
                "seed=%d,max_us=0,slow=%s:2600000" % (sd(), sl),
                "seed=%d,max_us=50,slow=%s:%d" % (sd(), sl, rng.randrange(2600000, 3500001)),
                "seed=%d,max_us=0,slow=%s:3500000,poll_us=200" % (sd(), sl),
                "seed=%d,max_us=300" % sd()]
    if cls == "crowd":
        return [None, "seed=%d,max_us=200" % sd(), "seed=%d,max_us=0,poll_us=300" % sd()]
    pool = [None,
            "seed=%d,max_us=300" % sd(),
            "seed=%d,max_us=0,poll_us=2000" % sd(),                               # slow coordinator: channels fill, workers block
            "seed=%d,max_us=100,slow=%s:%d" % (sd(), rng.choice(names), 20000 if cls == "early" else 3000),   # one source starts late
            "seed=%d,max_us=2000,poll_us=200" % sd(),
            "seed=%d,max_us=40" % sd(),
            "seed=%d,max_us=0,slow=%s:800,poll_us=50" % (sd(), rng.choice(names)),
            "seed=%d,max_us=1000,poll_us=1000" % sd()]
    while len(pool) < k:
        r = rng.random()
        if r < 0.4:
            pool.append("seed=%d,max_us=%d" % (sd(), rng.choice([20, 100, 500, 2500])))
        elif r < 0.7:
            pool.append("seed=%d,max_us=%d,poll_us=%d" % (sd(), rng.choice([0, 50, 500]), rng.choice([100, 600, 2500])))
        else:
            pool.append("seed=%d,max_us=%d,slow=%s:%d" % (sd(), rng.choice([0, 100]), rng.choice(names), rng.choice([500, 2500, 8000])))
    return pool[:k]


def gen(rng, cls, max_src):
    if cls == "big":
        # many messages: channels (capacity 5) are full most of the time
        return mu.gen_input(rng, rng.randrange(2, 5), rng.choice([120, 300]), allow_unsorted=False, allow_window=False,
                            allow_container=False, allow_dir=False, opts_choices=OPTS, big=True, allow_junk=False)
    if cls == "early":
        # tiny sources (<= 3 messages: all their datums fit in the channel, the worker ends at once)
        return mu.gen_input(rng, rng.randrange(2, 7), rng.choice([1, 2, 3]), opts_choices=OPTS)
    if cls == "blocked":
        return mu.blocked_input(rng, opts_choices=OPTS)
    if cls == "subus":
        return mu.subus_input(rng, rng.choice([2, 3, 4, 6]), rng.choice([3, 6, 12]), opts_choices=OPTS)
    if cls == "crowd":
        # more sources than any plausible cap on worker threads, each with more datums than one
        # channel holds (FileInfo + >= 6 messages + summary > CHANNEL_CAPACITY): every worker is
        # blocked in send while the coordinator still waits for the first datum of the others
        return mu.gen_input(rng, rng.randrange(66, 141), rng.choice([16, 24]), allow_unsorted=False, allow_window=False,
                            allow_container=False, allow_dir=False, opts_choices=OPTS, big=True, allow_junk=False,
                            allow_utmp=False)
    if cls == "wide":
        return mu.gen_input(rng, rng.randrange(9, max_src + 1), rng.choice([4, 12]), opts_choices=OPTS)
    return mu.gen_input(rng, rng.randrange(1, 9), rng.choice([4, 10, 40]), opts_choices=OPTS)


def finished_before_started(trace):
    """some source's FileSummary was received before another source's FileInfo"""
    seen_s = False
    for c, p in trace:
        if c == 2:
            seen_s = True
        elif c == 0 and seen_s:
            return True
    return False


def run(ctx):
    quick = ctx.quick()
    n_inputs = 24 if quick else 240
    n_plans = 12 if quick else 40
    max_src = 12 if quick else 32
    # ---- A
    vlib.proof_stage(ctx, "Props/C06.v", ["coord"], extra_targets=["Corr/C06.vo"])
    ok, log = vlib.build_s4()
    if not ok:
        ctx.obligation_broken("build", "s4 (hooked, release-like)", log)
        return ctx.finish()
    rng = ctx.rng
    scratch = vlib.scratch_dir(PROP)
    inputs, classes = [], []
    for k, inp in enumerate(mu.corpus_inputs(PROP)):          # corpus first
        mu.write_input(inp, os.path.join(scratch, "corpus%02d" % k), k)
        inputs.append(inp)
        classes.append("corpus")
    fams = mu.fixture_families()
    if not fams:
        ctx.note("no utmp/evtx/journal fixtures found under %s/logs: only text sources are exercised" % vlib.REPO)
    for k in range((4 if quick else 40) if fams else 0):
        inputs.append(mu.fixture_input(rng, fams))
        classes.append("fixture")
    for k in range(2 if quick else 12):                      # long runs first: they overlap with the rest
        inp = gen(rng, "blocked", max_src)
        mu.write_input(inp, os.path.join(scratch, "blocked%02d" % k), rng.randrange(1000))
        inputs.append(inp)
        classes.append("blocked")
    for k in range(1 if quick else 6):
        inp = gen(rng, "crowd", max_src)
        mu.write_input(inp, os.path.join(scratch, "crowd%02d" % k), rng.randrange(1000))
        inputs.append(inp)
        classes.append("crowd")
    for k in range(n_inputs):
        cls = ["mix", "subus", "early", "big", "mix", "early", "wide", "subus"][k % 8]
        inp = gen(rng, cls, max_src)
        mu.write_input(inp, os.path.join(scratch, "in%04d" % k), rng.randrange(1000))
        inputs.append(inp)
        classes.append(cls)
    n_fixed = sum(1 for c in classes if c in ("corpus", "fixture", "blocked", "crowd"))
    jobs, meta = [], []
    for ii, inp in enumerate(inputs):
        for pi, plan in enumerate(plans_for(rng, inp, n_plans, classes[ii])):
            jobs.append((inp, plan, os.path.join(scratch, "trace-%04d-%02d.txt" % (ii, pi)), TIME_BOUND))
            meta.append(ii)
    # the multi-second runs are started first (stable sort keeps everything else in order)
    order = sorted(range(len(jobs)), key=lambda j: 0 if (jobs[j][1] and re.search(r"slow=[^,]*:\d{7}", jobs[j][1])) else 1)
    jobs = [jobs[j] for j in order]
    meta = [meta[j] for j in order]
    results = mu.run_many(jobs, workers=8)

    # ---- C
    exp = [mu.expected_stdout(inp) if not inp.get("fixture") else (None, None) for inp in inputs]
    fail_n = 0
    hangs = 0
    by_input = {}
    for ri, ii in enumerate(meta):
        by_input.setdefault(ii, []).append(ri)
    spec_cases, spec_idx = [], []
    sched_dep = 0
    for ii, ris in by_input.items():
        inp = inputs[ii]
        exp_bytes, exp_order = exp[ii]
        outs = {}
        for ri in ris:
            res = results[ri]
            if res["rc"] == 124:
                hangs += 1
                fail_n += 1
                ctx.failure((dict(mu.describe(inp), plan=res["plan"]) if inp.get("fixture") else
                             mu.save_failure(PROP, ctx.seed, inp, res["plan"], exp_bytes, fail_n)),
                            "the run ends within %d s" % TIME_BOUND, "no exit (killed); stdout so far %d bytes" % len(res["stdout"]))
                continue
            outs.setdefault((res["rc"], res["stdout"]), []).append(res["plan"])
        if len(outs) > 1:
            sched_dep += 1
            fail_n += 1
            variants = sorted(outs.items(), key=lambda kv: -len(kv[1]))
            ctx.failure((dict(mu.describe(inp), plans=[v[1][0] for v in variants]) if inp.get("fixture") else
                         mu.save_failure(PROP, ctx.seed, inp, variants[1][1][0], exp_bytes, fail_n,
                                         extra=dict(plans=[v[1][0] for v in variants]))),
                        "identical stdout and exit status under every schedule",
                        dict(distinct_outputs=len(outs),
                             variants=[dict(rc=k[0], sha256=hashlib.sha256(k[1]).hexdigest(), bytes=len(k[1]), plans=v[:3]) for k, v in variants]))
        elif len(outs) == 1:
            (rc, out), plans = next(iter(outs.items()))
            if inp.get("fixture"):
                pr = mu.parse_fixture(inp, out) if rc == 0 else None
                if pr is None:
                    if rc == 0:
                        ctx.obligation_broken("oracle", "fixture output lines could not be attributed to a source and instant", json.dumps(mu.describe(inp)))
                    pr = ([[] for _ in inp["paths"]], [])
                inp["srcs"], obs = pr
                spec_cases.append(mu.coq_case(inp["srcs"], obs))
                spec_idx.append(ii)
                if rc != 0 or obs != mu.kway_merge(inp["srcs"]):
                    fail_n += 1
                    ctx.failure(dict(mu.describe(inp), plan=plans[0]), dict(rc=0, order_head=mu.kway_merge(inp["srcs"])[:50]),
                                dict(rc=rc, order_head=obs[:50]))
                continue
            obs = mu.observed_order(inp, out)
            spec_cases.append(mu.coq_case(mu.instants(inp), obs))
            spec_idx.append(ii)
            if rc != 0 or (out != exp_bytes if exp_bytes is not None else obs != exp_order):
                fail_n += 1
                ctx.failure(mu.save_failure(PROP, ctx.seed, inp, plans[0], exp_bytes, fail_n),
                            dict(rc=0, messages=len(exp_order), order_head=exp_order[:50]),
                            dict(rc=rc, messages=len(obs), order_head=obs[:50]))
    okc, bad, logc = mu.eval_cases(os.path.join(vlib.CACHE, "cases", PROP, "spec"), IMPORTS, "order_bad", spec_cases)
    if not okc:
        ctx.obligation_broken("spec-evaluation", "coqc on order cases", logc)
    for k, code in bad.items():
        ii = spec_idx[k]
        # python oracle agreed (no failure recorded for this input) but the Coq spec does not
        if not any(f["case"].get("describe", f["case"].get("argv")) in (mu.describe(inputs[ii]), mu.describe(inputs[ii])["argv"]) for f in ctx.failures):
            ctx.obligation_broken("oracle", "python k-way merge and Coq merge disagree",
                                  json.dumps(dict(case=mu.describe(inputs[ii]), first_difference_at=code)))

    # ---- B
    tr_cases, tr_idx = [], []
    for ri, (ii, res) in enumerate(zip(meta, results)):
        if res["rc"] != 0:
            continue
        if res["trace"] is None:
            ctx.obligation_broken("correspondence", "no coordinator trace written (hook H1)", json.dumps(mu.describe(inputs[ii])))
            break
        if inputs[ii].get("fixture") and "srcs" not in inputs[ii]:
            continue
        tr_cases.append(mu.coq_case(inputs[ii]["srcs"] if inputs[ii].get("fixture") else mu.instants(inputs[ii]), res["trace"]))
        tr_idx.append(ri)
    okt, tbad, logt = mu.eval_cases(os.path.join(vlib.CACHE, "cases", PROP, "trace"), IMPORTS, "trace_bad_cap", tr_cases)
    if not okt:
        ctx.obligation_broken("correspondence", "model evaluation (coqc on trace cases)", logt)
    for k, code in sorted(tbad.items())[:1]:
        ri = tr_idx[k]
        ctx.obligation_broken("correspondence", "processing_loop trace vs Model.Coord.coord_replay",
                              json.dumps(dict(case=mu.describe(inputs[meta[ri]]), plan=results[ri]["plan"], code=code,
                                              meaning="1-4 receive sequence not permitted by the model; 5 print/disconnect events differ from replay; 6 print order differs from merge",
                                              trace=results[ri]["trace"][:300], disagreements=len(tbad))))

    # ---- evidence
    distinct_traces = {}
    fbs = 0
    for ri, (ii, res) in enumerate(zip(meta, results)):
        if res["trace"]:
            distinct_traces.setdefault(ii, set()).add(json.dumps(res["trace"]))
            if finished_before_started(res["trace"]):
                fbs += 1
    # non-trivial: a run whose input has >= 2 sources (an interleaving exists); distinct by (input, receive interleaving)
    nontriv = sum(len(v) for ii, v in distinct_traces.items() if len(inputs[ii]["sources"]) >= 2)
    blocked_walls = [res["wall"] for ii, res in zip(meta, results)
                     if inputs[ii].get("blocked") and res["plan"] and re.search(r"slow=[^,]*:\d{7}", res["plan"])]
    cls_hist = {}
    for c in classes:
        cls_hist[c] = cls_hist.get(c, 0) + 1
    walls = sorted(r["wall"] for r in results)
    ctx.coverage.update(
        evaluations=len(results), distinct_nontrivial=nontriv,
        rule="instants are nanoseconds (timestamps with 6-9 fractional digits); input classes: blocked (a fast source of 12-80 messages, i.e. well over CHANNEL_CAPACITY+1 datums, next to a slow source of 1-2 messages inside the fast source's time range whose every send is delayed 2.6-3.5 s by the plan: the fast worker sits in send on its full channel for seconds; 5 plans: unplanned reference, three multi-second plans, one fast random plan), subus (sources whose messages fall inside the same microsecond, the later-named source holding the earlier one, mixed with exact ties), corpus (corpus/C06, hand-picked ties), fixture (2-6 utmp / evtx / journal files of /repo/logs in several compressed variants; instants read back from s4's own -u -d prefix), mix (1-8 text sources, 0-40 messages, ties, gz/xz, non-chronological, emptied by -a/-b, failing sources without timestamps, directory argument), early (2-6 sources of 1-3 messages: a worker ends before others start; one source delayed 20 ms per send), big (2-4 sources of 60-300 messages: channels of capacity 5 stay full under a slow coordinator), wide (9-%d sources), crowd (66-140 sources of 8-24 messages each: more worker threads than any cap, every worker blocked in send before the first print; 3 plans); each input under %d planned schedules (no delay; random per-send delays; slow coordinator poll_us; one slow source; combinations). distinct_nontrivial counts DISTINCT (input, coordinator event sequence) pairs over inputs with >= 2 sources, i.e. distinct observed interleavings" % (max_src, n_plans),
        samples=[dict(mu.describe(inputs[i]), cls=classes[i], plans=[results[ri]["plan"] for ri in by_input[i]][:4],
                      distinct_interleavings=len(distinct_traces.get(i, ()))) for i in (0, n_fixed, n_fixed + 2, n_fixed + 3)],
        inputs=len(inputs), plans_per_input=n_plans, input_class_histogram=cls_hist,
        traces_validated_against_impl=len(tr_cases) - len(tbad), trace_disagreements=len(tbad),
        schedule_dependent_inputs=sched_dep, hangs=hangs,
        blocked_worker_runs=len(blocked_walls), blocked_worker_run_wall_s_min=round(min(blocked_walls), 2) if blocked_walls else 0,
        blocked_worker_run_wall_s_max=round(max(blocked_walls), 2) if blocked_walls else 0,
        blocked_worker_fast_source_messages=[max(len(s["msgs"]) for s in inp["sources"]) for inp in inputs if inp.get("blocked")],
        inputs_with_utmp_source_last_record_not_newest=sum(1 for inp in inputs if not inp.get("fixture") and mu.describe(inp)["physically_last_record_not_newest"]),
        inputs_with_sub_microsecond_inversions=sum(1 for inp in inputs if not inp.get("fixture") and mu.subus_inversions(inp) > 0),
        runs_where_a_source_finished_before_another_started=fbs,
        distinct_interleavings_per_input_max=max((len(v) for v in distinct_traces.values()), default=0),
        messages_total=sum(len(l) for inp in inputs for l in (inp.get("srcs", []) if inp.get("fixture") else mu.instants(inp))),
        run_wall_s_median=round(walls[len(walls) // 2], 3), run_wall_s_max=round(walls[-1], 3), time_bound_s=TIME_BOUND)
    ctx.assumptions += [
        "crossbeam-channel: FIFO per channel, send blocks only when the channel is full, select returns some ready channel (the oracle contract of Model/Coord.v; not verified)",
        "planned delays (S4_VERIF_PLAN) steer but do not enumerate the OS schedule; the theorems of Props/C06.v quantify over all schedules, the runs sample them",
        "worker threads follow the protocol FileInfo, NewMessage*, FileSummary (exec_*processor); a worker that returns before its first send (thread spawn failure, internal type mismatch) is outside the model",
        "stdout write errors (closed pipe) are outside the model",
    ]
    return ctx.finish()


def replay(ctx, path):
    return mu.replay_failures(PROP, path, repeats=5)
