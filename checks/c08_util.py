"""Helpers of the C08 check: synthesis of accounting-record files from the FROZEN reference
layouts (checks/c08_ref_layouts.json), expected rendering of fields, parsing of s4's output."""
import gzip, io, json, lzma, os, re, tarfile

HERE = os.path.dirname(os.path.abspath(__file__))
KINDS = ["Acct", "AcctV3", "Lastlog", "Lastlogx", "Utmp", "Utmpx"]
# a file name per reader kind (the name alone selects the reader, C16)
KIND_NAME = {"Acct": "acct", "AcctV3": "pacct", "Lastlog": "lastlog", "Lastlogx": "lastlogx", "Utmp": "wtmp", "Utmpx": "utmpx"}
UT_TYPE_STR = ["EMPTY", "RUN_LVL", "BOOT_TIME", "NEW_TIME", "OLD_TIME", "INIT_PROCESS", "LOGIN_PROCESS",
               "USER_PROCESS", "DEAD_PROCESS", "ACCOUNTING", "SIGNATURE", "DOWN_TIME"]


def ref_layouts():
    d = json.load(open(os.path.join(HERE, "c08_ref_layouts.json")))
    out = {}
    for l in d["layouts"]:
        for f in l["fields"]:
            f["offset"], f["size"] = int(f["offset"]), int(f["size"])
        l["kind"] = layout_kind(l["name"])
        out[l["name"]] = l
    return out, d["consts"]


def layout_kind(name):
    n = name.lower()
    if n.endswith("acct_v3"):
        return "AcctV3"
    for k in ("Utmpx", "Utmp", "Lastlogx", "Lastlog", "Acct"):
        if n.endswith(k.lower()):
            return k
    raise ValueError(name)


def field_values(lay, i):
    """values written into record number i (a record's own, distinguishable values)"""
    v = {}
    for f in lay["fields"]:
        lab, kind, size = f["label"], f["kind"], f["size"]
        if kind == "c":
            if "line" in lab:
                s = "pts/%d" % i
            elif lab in ("ut_user", "ut_name"):
                s = "u%d" % i
            elif "host" in lab:
                s = "h%d.example" % i
            elif lab == "ut_id":
                s = "i%d" % (i % 100)
            elif lab == "ac_comm":
                s = "cmd%d" % i
            else:
                s = "x%d" % i
            v[lab] = s[:size - 1]
        elif kind in ("i", "u"):
            if lab == "ut_type":
                v[lab] = 7
            elif lab in ("ut_pid", "ac_pid"):
                v[lab] = 1000 + i
            elif lab == "ac_ppid":
                v[lab] = 1
            elif lab == "ut_session":
                v[lab] = i % 50
            elif lab == "ac_flag":
                v[lab] = 1
            elif lab == "ac_version":
                v[lab] = 3
            elif lab in ("ac_uid", "ac_gid"):
                v[lab] = 1000 + (i % 7)
            else:
                v[lab] = 0
    return v


def put_int(buf, off, size, val, signed):
    buf[off:off + size] = int(val).to_bytes(size, "little", signed=signed)


def make_record(lay, i, tv, null_kind=None):
    """tv = (sec, usec).  null_kind: None | 'zero' (all bytes zero) | 'zerotime' (fields set, time 0)"""
    buf = bytearray(lay["size"])
    if null_kind == "zero":
        return bytes(buf)
    vals = field_values(lay, i)
    for f in lay["fields"]:
        lab, kind, off, size = f["label"], f["kind"], f["offset"], f["size"]
        if kind == "c":
            b = vals[lab].encode()
            buf[off:off + len(b)] = b
        elif kind in ("i", "u"):
            put_int(buf, off, size, vals[lab], kind == "i")
    sec, usec = (0, 0) if null_kind == "zerotime" else tv
    o = lay["offset_tv"]
    put_int(buf, o + lay["sec_off"], lay["sec_len"], sec, lay["sec_signed"])
    if lay["usec_len"]:
        put_int(buf, o + lay["usec_off"], lay["usec_len"], usec, True)
    return bytes(buf)


def expected_patterns(lay, i, tv):
    """regexes that the printed line of record i must match (that record's own values)"""
    vals = field_values(lay, i)
    pats = []
    for f in lay["fields"]:
        lab, kind = f["label"], f["kind"]
        if kind == "c":
            pats.append((lab, r"(?:^|[ '])%s '?%s'" % (re.escape(lab), re.escape(vals[lab]))))
        elif kind in ("i", "u"):
            if lab == "ut_type":
                pats.append((lab, r"(?:^|[ '])ut_type %s(?: |$)" % UT_TYPE_STR[vals[lab]]))
            elif lab == "ac_flag":
                pats.append((lab, r"(?:^|[ '])ac_flag 0b0001 \(AFORK\)(?: |$)"))
            else:
                pats.append((lab, r"(?:^|[ '])%s '?%d(?:'| |$)" % (re.escape(lab), vals[lab])))
        elif kind == "t":
            if lay["usec_len"]:
                pats.append((lab, r"(?:^|[ '])%s %d\.%d(?: |$)" % (re.escape(lab), tv[0], tv[1])))
            else:
                pats.append((lab, r"(?:^|[ '])%s %d(?: |$)" % (re.escape(lab), tv[0])))
    return pats


def marker_field(lay):
    """the C-string field used to attribute a printed line to its record"""
    for f in lay["fields"]:
        if f["kind"] == "c" and ("line" in f["label"] or f["label"] == "ac_comm"):
            return f["label"]
    raise ValueError(lay["name"])


def marker_index(lay, line):
    lab = marker_field(lay)
    m = re.search(r"(?:^|[ '])%s '?(?:pts/|cmd)(\d+)'" % re.escape(lab), line)
    return int(m.group(1)) if m else None


def build_file(lay, recs):
    """recs: list of (tv, null_kind)"""
    return b"".join(make_record(lay, i, tv, nk) for i, (tv, nk) in enumerate(recs))


def container(data, name, how):
    """returns (file name, bytes) of `data` stored as plain / gz / xz / tar"""
    if how == "plain":
        return name, data
    if how == "gz":
        bio = io.BytesIO()
        with gzip.GzipFile(filename=name, mode="wb", fileobj=bio, mtime=1700000000) as g:
            g.write(data)
        return name + ".gz", bio.getvalue()
    if how == "xz":
        return name + ".xz", lzma.compress(data, format=lzma.FORMAT_XZ, check=lzma.CHECK_CRC32)
    if how == "tar":
        bio = io.BytesIO()
        with tarfile.open(fileobj=bio, mode="w", format=tarfile.USTAR_FORMAT) as t:
            ti = tarfile.TarInfo(name)
            ti.size = len(data)
            ti.mtime = 1700000000
            t.addfile(ti, io.BytesIO(data))
        return "a_" + name + ".tar", bio.getvalue()
    raise ValueError(how)


def iso(tv):
    """a -a/-b argument denoting exactly the instant of tv=(sec, usec), UTC"""
    import datetime
    d = datetime.datetime.fromtimestamp(tv[0], datetime.timezone.utc)
    return d.strftime("%Y-%m-%dT%H:%M:%S") + ".%06d+00:00" % tv[1]


def split_output(stdout):
    """s4 writes each record as `<prepended>:<fields>\\n` followed by one NUL byte.
    Returns (lines without the NUL, number of NUL bytes seen)."""
    nul = stdout.count(b"\x00")
    text = stdout.replace(b"\x00", b"")
    lines = text.split(b"\n")
    if lines and lines[-1] == b"":
        lines.pop()
    return [l.decode("utf-8", "replace") for l in lines], nul


def tv_key(tv):
    return (tv[0], tv[1])


def spec_order(recs, lo, hi):
    """python rendering of the Coq spec (used only for classification and evidence; the
    verdict uses the Coq spec): indexes of kept records, stable-sorted by time"""
    keep = [i for i, (tv, nk) in enumerate(recs)
            if nk is None and tuple(tv) != (0, 0) and (lo is None or tuple(lo) <= tuple(tv)) and (hi is None or tuple(tv) <= tuple(hi))]
    return sorted(keep, key=lambda i: tuple(recs[i][0]))
