"""Helpers of the C08 check: synthesis of accounting-record files from the FROZEN reference
layouts (checks/c08_ref_layouts.json), expected rendering of fields, parsing of s4's output."""
import gzip, io, json, lzma, os, re, tarfile

HERE = os.path.dirname(os.path.abspath(__file__))
KINDS = ["Acct", "AcctV3", "Lastlog", "Lastlogx", "Utmp", "Utmpx"]
# a file name per reader kind (the name alone selects the reader, C16)
KIND_NAME = {"Acct": "acct", "AcctV3": "pacct", "Lastlog": "lastlog", "Lastlogx": "lastlogx", "Utmp": "wtmp", "Utmpx": "utmpx"}
# the names such files have on the systems they come from, and the reader kind each name selects
# (the name alone selects it: C16; cross-checked on every run against the library's own path_to_filetype)
NAME_KIND = {"acct": "Acct", "pacct": "AcctV3", "lastlog": "Lastlog", "lastlogx": "Lastlogx",
             "utmp": "Utmp", "wtmp": "Utmp", "btmp": "Utmp", "wtmp.1": "Utmp",
             "utmpx": "Utmpx", "wtmpx": "Utmpx", "btmpx": "Utmpx"}


def layout_names(name):
    """file names under which records of this layout are found in the field (the first is the default)"""
    k = layout_kind(name)
    if name.startswith("Fs_Linux") and k == "Utmpx":     # glibc: struct utmpx in /var/run/utmp, /var/log/wtmp, /var/log/btmp
        return ["utmpx", "wtmp", "utmp", "btmp", "wtmp.1", "wtmpx"]
    if k == "Utmpx":
        return ["utmpx", "wtmpx", "btmpx"]
    if k == "Utmp":
        return ["wtmp", "utmp", "wtmp.1"]
    return [KIND_NAME[k]]


def case_fname(lay, c):
    return c.get("fname") or KIND_NAME[lay["kind"]]


def case_kind(lay, c):
    """the reader kind the case's file name selects"""
    return NAME_KIND[case_fname(lay, c)]


REAL_USERS = ["administrator", "root", "backupoperator", "reboot", "postgresql", "LOGIN", "runlevel", "www-data-user"]
# ut_addr_v6 shapes (16 bytes, as stored): empty; IPv4 in word 0; IPv6 with every word set; with zero
# middle words (2001:db8::1); with only the last word set (::1); fe80::1; zero last word (2001:db8:85a3:8d3::)
ADDR_SHAPES = [
    bytes(16),
    bytes([192, 168, 4, 18]) + bytes(12),
    bytes.fromhex("20010db885a308d313198a2e03707348"),
    bytes.fromhex("20010db8000000000000000000000001"),
    bytes.fromhex("00000000000000000000000000000001"),
    bytes.fromhex("fe800000000000000000000000000001"),
    bytes.fromhex("20010db885a308d30000000000000000"),
    bytes([10, 0, 0, 5]) + bytes(12),
    bytes.fromhex("2a0206b8000000000000000000020242"),
    bytes.fromhex("00000000000000000000ffffc0a80101"),
]


def addr_value(name, i):
    return ADDR_SHAPES[(i + sum(name.encode())) % len(ADDR_SHAPES)]


UT_TYPE_STR = ["EMPTY", "RUN_LVL", "BOOT_TIME", "NEW_TIME", "OLD_TIME", "INIT_PROCESS", "LOGIN_PROCESS",
               "USER_PROCESS", "DEAD_PROCESS", "ACCOUNTING", "SIGNATURE", "DOWN_TIME"]


def ref_layouts():
    d = json.load(open(os.path.join(HERE, "c08_ref_layouts.json")))
    out = {}
    for l in d["layouts"]:
        for f in l["fields"]:
            f["offset"], f["size"] = int(f["offset"]), int(f["size"])
        l["kind"] = layout_kind(l["name"])
        out[l["name"]] = l
    return out, d["consts"]


def layout_kind(name):
    n = name.lower()
    if n.endswith("acct_v3"):
        return "AcctV3"
    for k in ("Utmpx", "Utmp", "Lastlogx", "Lastlog", "Acct"):
        if n.endswith(k.lower()):
            return k
    raise ValueError(name)


STR_MODES = ["normal", "wm1", "full_all", "full_rot", "mixed"]
# a string mode may carry a suffix: "+ss" (the sockaddr field of the NetBSD i386 utmpx / lastlogx
# layouts holds a sockaddr_in with printable bytes), "+ss10" (... of the address 10.x.y.z: a newline
# byte), "+utf8" (user / host names with UTF-8 encoded non-ASCII letters)


def split_mode(strmode):
    base, _, ext = (strmode or "normal").partition("+")
    return base or "normal", ext
_FILL = "_" + "abcdefghijklmnopqrstuvwxyz" * 12


def pad_to(s, n):
    return s[:n] if len(s) >= n else s + _FILL[:n - len(s)]


def cstr_mode(lay, i, j, strmode):
    """how C-string field number j of record i is filled: 'normal' (short, NUL terminated),
    'wm1' (width-1 bytes then one NUL), 'full' (the whole width, no terminating NUL)"""
    strmode, _ = split_mode(strmode)
    if strmode in (None, "normal"):
        return "normal"
    if strmode == "wm1":
        return "wm1"
    if strmode == "full_all":
        return "full"
    ncstr = sum(1 for f in lay["fields"] if f["kind"] == "c")
    if strmode == "full_rot":            # one field of each record is full, the field rotates
        return "full" if (i % ncstr) == j else "normal"
    if strmode == "mixed":
        return ("normal", "wm1", "full")[(i * 7 + j * 3 + 1) % 3]
    raise ValueError(strmode)


def field_values(lay, i, strmode=None):
    """values written into record number i (a record's own, distinguishable values)"""
    v = {}
    j = -1
    _, ext = split_mode(strmode)
    for f in lay["fields"]:
        lab, kind, size = f["label"], f["kind"], f["size"]
        if kind == "b":             # sockaddr_storage, printed raw up to its first NUL
            if ext in ("ss", "ss10"):
                r = random_for(lay["name"], i)
                sa = [16, 2] + [r.choice([c for c in range(0x21, 0x7F) if c != 0x27]) for _ in range(6)]
                if ext == "ss10":
                    sa[4] = 10
                v[lab] = bytes(sa).decode("latin-1")
            else:
                v[lab] = ""
            continue
        if kind == "a":             # ut_addr_v6: [i32; 4], every shape of address
            v[lab] = addr_value(lay["name"], i)
            continue
        if kind == "c":
            j += 1
            if ext.startswith("real") and lab in ("ut_user", "ut_name", "ut_id", "ut_host", "ll_host") :
                sh = int(ext[4:] or 0)
                s = {"ut_user": REAL_USERS[(i + sh) % len(REAL_USERS)], "ut_name": REAL_USERS[(i + sh) % len(REAL_USERS)],
                     "ut_id": "ts/%d" % (i % 10), "ut_host": "192.168.4.%d" % (i % 250), "ll_host": "192.168.4.%d" % (i % 250)}[lab]
                v[lab] = s[:size - 1] if size > 4 else s[:size]
                continue
            if "line" in lab:
                s = "pts/%d" % i
            elif lab in ("ut_user", "ut_name"):
                s = "u%d" % i
                if ext == "utf8":
                    s = ("j\u00fcrgen%d" % i) if size >= 16 else ("\u00fc%d" % i)
            elif "host" in lab:
                s = "h%d.example" % i
                if ext == "utf8" and size >= 24:
                    s = "h%d.b\u00fcro.example" % i
            elif lab == "ut_id":
                s = "i%d" % (i % 100)
            elif lab == "ac_comm":
                s = "cmd%d" % i
            else:
                s = "x%d" % i
            m = cstr_mode(lay, i, j, strmode)
            if ext == "utf8":
                while len(s.encode()) > size - 1:
                    s = s[:-1]
                v[lab] = s
            else:
                v[lab] = s[:size - 1] if m == "normal" else pad_to(s, size - 1 if m == "wm1" else size)
        elif kind in ("i", "u"):
            if lab == "ut_type":
                v[lab] = 1 + (i + int(ext[4:] or 0)) % 8 if ext.startswith("real") else 7
            elif lab in ("ut_pid", "ac_pid"):
                # process ids go up to 2^22 on Linux: values beyond 16 and 17 bits as well
                v[lab] = [1000 + i, 40000 + i, 70000 + i, 4194000 + i][i % 4] if size >= 4 else 1000 + i
            elif lab == "ac_ppid":
                v[lab] = [1, 33000 + i, 3000000 + i][i % 3]
            elif lab == "ut_session":
                v[lab] = [1 + i % 50, 70000 + i][i % 2] if size >= 4 else 1 + i % 50
            elif lab in ("e_termination", "e_exit", "ut_exit"):
                v[lab] = 0x4545 + i % 3          # non-zero bytes right after ut_host
            elif lab == "ac_flag":
                v[lab] = 1
            elif lab == "ac_version":
                v[lab] = 3
            elif lab in ("ac_uid", "ac_gid"):
                v[lab] = [1000 + (i % 7), (60000 if size == 2 else 100000) + (i % 7)][i % 2]
            else:
                v[lab] = 0
    return v


def random_for(name, i):
    import random
    return random.Random("%s/%d" % (name, i))


def put_int(buf, off, size, val, signed):
    buf[off:off + size] = int(val).to_bytes(size, "little", signed=signed)


def invalid_tv(lay):
    """the time value an all-0xFF entry decodes to"""
    sec = -1 if lay["sec_signed"] else (1 << (8 * lay["sec_len"])) - 1
    return (sec, -1 if lay["usec_len"] else 0)


def make_record(lay, i, tv, null_kind=None, strmode=None):
    """tv = (sec, usec).  null_kind: None | 'zero' (all bytes zero) | 'zerotime' (fields set, time 0)
    | 'ff' (all bytes 0xFF: an invalid entry)"""
    buf = bytearray(lay["size"])
    if null_kind == "zero":
        return bytes(buf)
    if null_kind == "ff":
        return b"\xff" * lay["size"]
    vals = field_values(lay, i, strmode)
    for f in lay["fields"]:
        lab, kind, off, size = f["label"], f["kind"], f["offset"], f["size"]
        if kind == "c":
            b = vals[lab].encode()
            assert len(b) <= size
            buf[off:off + len(b)] = b
        elif kind == "b":
            b = vals[lab].encode("latin-1")
            buf[off:off + len(b)] = b
        elif kind == "a":
            buf[off:off + size] = vals[lab]
        elif kind in ("i", "u"):
            put_int(buf, off, size, vals[lab], kind == "i")
    sec, usec = (0, 0) if null_kind == "zerotime" else tv
    o = lay["offset_tv"]
    put_int(buf, o + lay["sec_off"], lay["sec_len"], sec, lay["sec_signed"])
    if lay["usec_len"]:
        put_int(buf, o + lay["usec_off"], lay["usec_len"], usec, True)
    return bytes(buf)


def expected_patterns(lay, i, tv, strmode=None):
    """regexes that the printed line of record i must match (that record's own values and, for a
    C string, exactly the field's bytes up to its width: the closing quote must follow)"""
    vals = field_values(lay, i, strmode)
    pats = []
    for f in lay["fields"]:
        lab, kind = f["label"], f["kind"]
        if kind == "c":
            pats.append((lab, r"(?:^|[ '])%s '?%s'" % (re.escape(lab), re.escape(vals[lab]))))
        elif kind == "b":
            pats.append((lab, r"(?:^|[ '])%s '?%s(?:'|$)" % (re.escape(lab), re.escape(vals[lab]))))
        elif kind == "a":
            pats.append((lab, r" %s$" % re.escape(addr_text(vals[lab]))))
        elif kind in ("i", "u"):
            if lab == "ut_type":
                pats.append((lab, r"(?:^|[ '])ut_type %s(?: |$)" % UT_TYPE_STR[vals[lab]]))
            elif lab == "ac_flag":
                pats.append((lab, r"(?:^|[ '])ac_flag 0b0001 \(AFORK\)(?: |$)"))
            else:
                pats.append((lab, r"(?:^|[ '])%s '?%d(?:'| |$)" % (re.escape(lab), vals[lab])))
        elif kind == "t":
            if lay["usec_len"]:
                pats.append((lab, r"(?:^|[ '])%s %d\.%d(?: |$)" % (re.escape(lab), tv[0], tv[1])))
            else:
                pats.append((lab, r"(?:^|[ '])%s %d(?: |$)" % (re.escape(lab), tv[0])))
    return pats


def addr_text(a):
    """what a line shows for the 16 address bytes (utmp(5): an IPv4 address uses just ut_addr_v6[0], the
    other three words are zero): `ut_addr a.b.c.d` for IPv4 / empty, else `ut_addr_v6` and the four
    words as stored (little-endian i32) in upper-case hexadecimal"""
    if a[4:] == bytes(12):
        return "ut_addr %d.%d.%d.%d" % tuple(a[:4])
    return "ut_addr_v6 " + ":".join("%X" % int.from_bytes(a[k:k + 4], "little") for k in range(0, 16, 4))


def marker_field(lay):
    """the C-string field used to attribute a printed line to its record"""
    for f in lay["fields"]:
        if f["kind"] == "c" and ("line" in f["label"] or f["label"] == "ac_comm"):
            return f["label"]
    raise ValueError(lay["name"])


def marker_index(lay, line):
    lab = marker_field(lay)
    m = re.search(r"(?:^|[ '])%s '?(?:pts/|cmd)(\d+)(?![0-9])" % re.escape(lab), line)
    return int(m.group(1)) if m else None


def build_file(lay, recs, strmode=None):
    """recs: list of (tv, null_kind)"""
    return b"".join(make_record(lay, i, tv, nk, strmode) for i, (tv, nk) in enumerate(recs))


def container(data, name, how):
    """returns (file name, bytes) of `data` stored as plain / gz / xz / tar"""
    if how == "plain":
        return name, data
    if how == "gz":
        bio = io.BytesIO()
        with gzip.GzipFile(filename=name, mode="wb", fileobj=bio, mtime=1700000000) as g:
            g.write(data)
        return name + ".gz", bio.getvalue()
    if how == "xz":
        return name + ".xz", lzma.compress(data, format=lzma.FORMAT_XZ, check=lzma.CHECK_CRC32)
    if how == "tar":
        bio = io.BytesIO()
        with tarfile.open(fileobj=bio, mode="w", format=tarfile.USTAR_FORMAT) as t:
            ti = tarfile.TarInfo(name)
            ti.size = len(data)
            ti.mtime = 1700000000
            t.addfile(ti, io.BytesIO(data))
        return "a_" + name + ".tar", bio.getvalue()
    raise ValueError(how)


def iso(tv):
    """a -a/-b argument denoting exactly the instant of tv=(sec, usec), UTC"""
    import datetime
    d = datetime.datetime.fromtimestamp(tv[0], datetime.timezone.utc)
    return d.strftime("%Y-%m-%dT%H:%M:%S") + ".%06d+00:00" % tv[1]


def split_output(stdout):
    """s4 writes each record as `<prepended>:<fields>\\n` followed by one NUL byte.
    Returns (lines without the NUL, number of NUL bytes seen)."""
    nul = stdout.count(b"\x00")
    text = stdout.replace(b"\x00", b"")
    lines = text.split(b"\n")
    if lines and lines[-1] == b"":
        lines.pop()
    return [l.decode("utf-8", "replace") for l in lines], nul


def tv_key(tv):
    return (tv[0], tv[1])


def spec_order(recs, lo, hi):
    """python rendering of the Coq spec (used only for classification and evidence; the
    verdict uses the Coq spec): indexes of kept records, stable-sorted by time"""
    keep = [i for i, (tv, nk) in enumerate(recs)
            if nk is None and tuple(tv) != (0, 0) and (lo is None or tuple(lo) <= tuple(tv)) and (hi is None or tuple(tv) <= tuple(hi))]
    return sorted(keep, key=lambda i: tuple(recs[i][0]))
