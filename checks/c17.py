"""C17 — memory held for a streamed text log does not grow with its size (on the --summary marks).

A. Coq: Props/C17.v — retained-set model (Model/Retain.v): bound for the repaired policy P_retry for
   all well-formed message sequences, block sizes, channel bounds and schedules; the current policy
   P_cur refuted twice (F9b general theorem + witnesses, F9a witnesses).
B. tie: the model of the CURRENT policy vs the hooked binary:
   B1 the consumer is made to keep up (hook H1: every worker send sleeps, the channel is always
      empty, Arc::try_unwrap never fails): `blocks high`, `lines high`, `syslines high` must EQUAL the
      model's marks for the same layout / block size / container;
   B2 free scheduling (and planned consumer delays): model(no lag) <= observed <= model(lag cap+2).
   CHANNEL_CAPACITY is scraped from src/bin/s4.rs on every run; `wfb` is evaluated on every case.
   B4 windowed runs (plain file, -a placed at 10 %, 50 %, 90 % of the file): the model of
      Model/RetainSearch.v (block-zero analysis, binary search probes with their LRU caches, stage-3
      loop) must EQUAL the marks when the consumer keeps up, and bracket them otherwise.
   B5 every kind of window: -b alone, -a -b on plain files (the driver stops at the first message
      after B), and -a / -b / -a -b on streamed files (stage 2 = ONE linear search from the start
      without drops: finding F9d) — equality when the consumer keeps up, bracket otherwise.
   B6 the two Coq models of the stores, Model/Caches.v (WP-A, byte level) and Model/Retain.v, are
      evaluated on the same layouts (Corr/C17a.v) and must report the same 8 figures: a re-check of
      the theorem C17_caches_retain_agree on the inputs of this run.
C. search, spec = the property: the same generated log grown x4 per step; a mark that keeps growing
   (linear-growth test on the three largest sizes) is a failing input.  Inside the known classes
   -> KNOWN-FINDING, outside -> VIOLATION.  The same with a window (-a at 10 / 50 / 90 %): the marks
   may grow with the logarithm of the size (equal steps per x4), never linearly.
"""
import hashlib, json, os, re, shutil, subprocess, time
from concurrent.futures import ThreadPoolExecutor, ProcessPoolExecutor
import vlib
from vlib import CACHE
import c17_util as U

PROP_FILE = "Props/C17.v"
PREFIX = [(21, True)] * 3          # three short dated lines: the file passes the block-zero gate at every block size
MARKS = ("blocks_high", "lines_high", "syslines_high")
SLACK = 2


# the channel capacity at which finding F9a (consumer_lag_exceeds_drop_distance) was recorded in known_findings.d/C17.json:
# the recorded class is "drop distance < RECORDED_CAP + 2"; a deeper channel does not widen the recorded class
RECORDED_CAP = 5


def scrape_cap():
    src = open(os.path.join(vlib.REPO, "src", "bin", "s4.rs")).read()
    m = re.search(r"const\s+CHANNEL_CAPACITY\s*:\s*usize\s*=\s*(\d+)\s*;", src)
    return int(m.group(1)) if m else None


def scrape_window_constants():
    """the constants Model/RetainSearch.v transcribes: (FIND_SYSLINE_LRU_CACHE_SZ, FIND_LINE_LRU_CACHE_SZ, SYSLOG_SZ_MAX)"""
    def grab(rel, rx):
        m = re.search(rx, open(os.path.join(vlib.REPO, *rel)).read())
        return int(m.group(1)) if m else None
    return (grab(("src", "readers", "syslinereader.rs"), r"const\s+FIND_SYSLINE_LRU_CACHE_SZ\s*:\s*usize\s*=\s*(\d+)\s*;"),
            grab(("src", "readers", "linereader.rs"), r"const\s+FIND_LINE_LRU_CACHE_SZ\s*:\s*usize\s*=\s*(\d+)\s*;"),
            grab(("src", "common.rs"), r"pub\s+const\s+SYSLOG_SZ_MAX\s*:\s*usize\s*=\s*(\d+)\s*;"))


WINDOW_CONSTANTS = (4, 8, 8096)     # SLRU_CAP, LLRU_CAP, BZ_SMALL of Model/RetainSearch.v (and c17_util.WindowSim)


# ------------------------------------------------------------------ generators

def gen_base(rng, kind, bs, nmsg):
    lay = []
    for mi in range(nmsg):
        if kind == "short":
            lay.append((rng.randrange(21, 90), True))
        elif kind == "multi":
            lay.append((rng.randrange(21, 60), True))
            for _c in range(rng.choice([0, 0, 1, 2, 5])):
                lay.append((rng.randrange(1, 70), False))
        elif kind == "long":
            lay.append((rng.randrange(21, 3 * bs), True))
            if rng.random() < 0.3:
                lay.append((rng.randrange(1, bs), False))
        elif kind == "edgey":
            ln = rng.choice([bs // 2, bs // 4, bs, 32, 64]) if rng.random() < 0.7 else rng.randrange(21, 100)
            lay.append((max(ln, 21), True))
        elif kind == "longline":      # short lines, every ~50th message has lines spanning three or more blocks
            if rng.random() < 0.02 or mi == nmsg // 2:
                lay.append((rng.randrange(int(2.2 * bs), int(3.5 * bs)), True))
                for _c in range(rng.choice([0, 0, 1, 2])):
                    lay.append((rng.randrange(int(2.1 * bs), int(3.2 * bs)), False))
            else:
                lay.append((rng.randrange(60, 140), True))
        elif kind == "aligned":       # every length a multiple of 32: lines end on block edges all the time
            lay.append((rng.choice([32, 64, 64, 96, 128]), True))
            if rng.random() < 0.2:
                lay.append((32, False))
        elif kind == "dense":         # the shortest dated lines: thousands of messages inside one block
            lay.append((rng.randrange(21, 27), True))
        elif kind == "safe":          # long lines are still short relative to the block
            hi = max(40, min(400, bs // 16))
            lay.append((rng.randrange(21, hi), True))
            if rng.random() < 0.3:
                lay.append((rng.randrange(1, hi), False))
        else:
            raise ValueError(kind)
    return lay


def prefix_of(case):
    return [tuple(x) for x in case["prefix"]] if "prefix" in case else PREFIX


def layout_of(case):
    lay = prefix_of(case) + [tuple(x) for x in case["base"]] * case["mult"]
    if case.get("avoid_edges"):
        lay = U.avoid_edges(lay, case["bs"])
    return lay


def case_id(case):
    h = hashlib.sha1(json.dumps([prefix_of(case), case["base"], case["bs"], case["container"], case["mult"], case.get("avoid_edges", False),
                                 case.get("notation", "iso")]).encode()).hexdigest()[:12]
    return h


# ------------------------------------------------------------------ running the binary

def run_bin(root, case, mode, idx, slow_us=300, plan=None, after=None, before=None):
    """mode: 'lagfree' (H1 slow on every send) | 'free' | 'plan' (given S4_VERIF_PLAN).  after / before: values of -a / -b.
    returns summary dict or None"""
    name = "c17f%05d" % idx
    path = os.path.join(root, name + U.EXT[case["container"]])
    lay = layout_of(case)
    U.write_log(path, lay, case["container"], case.get("notation", "iso"))
    env = dict(os.environ)
    env["TZ"] = "UTC"
    env.pop("S4_VERIF_PLAN", None)
    if mode == "lagfree":
        env["S4_VERIF_PLAN"] = "seed=1,max_us=0,slow=%s:%d" % (name, slow_us)
    elif mode == "plan":
        env["S4_VERIF_PLAN"] = plan
    t0 = time.time()
    try:
        pr = subprocess.run([vlib.S4_BIN, "--color", "never", "--summary", "--blocksz", str(case["bs"])] +
                            (["-a", after] if after else []) + (["-b", before] if before else []) + [path],
                            env=env, stdout=subprocess.DEVNULL, stderr=subprocess.PIPE, timeout=900)
        s = U.parse_summary(pr.stderr)
        rc = pr.returncode
    except subprocess.TimeoutExpired:
        s, rc = None, 124
    try:
        os.remove(path)
    except OSError:
        pass
    if s is not None:
        s["rc"] = rc
        s["wall"] = round(time.time() - t0, 3)
        s["messages"] = len(U.messages(lay))
        s["total_lines"] = len(lay)
    return s


def coq_layout(l):
    return "[" + "; ".join("(%d,%s)" % (a, "true" if b else "false") for a, b in l) + "]"


def model_rows(cases, H, workdir):
    """evaluate Corr.C17.rows + wf on the cases (sharded); returns list of dict per case or None"""
    hdr = (vlib.COQ_PRINT_HDR + "From Coq Require Import List NArith Bool.\nImport ListNotations.\n"
           "From S4.Model Require Import Retain.\nFrom S4.Corr Require Import C17.\nOpen Scope N_scope.\n")
    idx = list(range(len(cases)))
    # balance shards by size
    idx.sort(key=lambda i: -len(cases[i]["base"]) * cases[i]["mult"])
    shards = [idx[i::vlib.NCPU] for i in range(min(vlib.NCPU, len(idx)))]
    texts = []
    for sh in shards:
        rows = []
        for i in sh:
            c = cases[i]
            # avoid_edges changes the layout non-periodically: give the whole layout as the prefix
            if c.get("avoid_edges"):
                pre, base, rep = layout_of(c), [], 0
            else:
                pre, base, rep = prefix_of(c), c["base"], c["mult"]
            rows.append("(%s, %s, %d%%nat, %d, %s, %d)" % (coq_layout(pre), coq_layout(base), rep, c["bs"],
                                                          "true" if c["container"] != "plain" else "false", H))
        texts.append(hdr + "Definition cases : list case := [\n%s\n].\nEval vm_compute in (rows_wf cases).\n" % ";\n".join(rows))
    res = vlib.coq_eval_shards(workdir, texts)
    out = [None] * len(cases)
    for sh, (rc, o) in zip(shards, res):
        pairs = vlib.parse_eval_pairs(o) if rc == 0 else None
        if pairs is None or len(pairs) != len(sh):
            return None, o
        for k, t in enumerate(pairs):
            i = sh[k]
            out[i] = dict(messages=t[1], lo=(t[2], t[3], t[4]), hi=(t[5], t[6], t[7]), derr_lo=t[8], derr_hi=t[9], wf=t[10],
                          span=t[11], ml=t[12])
    return out, ""


def model_rows_w(cases, H, workdir):
    """evaluate Corr.C17.rows_w on windowed cases (each has "t"); returns list of dict per case or None"""
    hdr = (vlib.COQ_PRINT_HDR + "From Coq Require Import List NArith Bool.\nImport ListNotations.\n"
           "From S4.Model Require Import Retain.\nFrom S4.Corr Require Import C17.\nOpen Scope N_scope.\n")
    idx = list(range(len(cases)))
    idx.sort(key=lambda i: -len(cases[i]["base"]) * cases[i]["mult"])
    shards = [idx[i::vlib.NCPU] for i in range(min(vlib.NCPU, len(idx)))]
    texts = []
    for sh in shards:
        rows = []
        for i in sh:
            c = cases[i]
            if c.get("avoid_edges"):
                pre, base, rep = layout_of(c), [], 0
            else:
                pre, base, rep = prefix_of(c), c["base"], c["mult"]
            rows.append("(%s, %s, %d%%nat, %d, %d, %d)" % (coq_layout(pre), coq_layout(base), rep, c["bs"], H, c["t"]))
        texts.append(hdr + "Definition cases : list wcase := [\n%s\n].\nEval vm_compute in (rows_w cases).\n" % ";\n".join(rows))
    res = vlib.coq_eval_shards(workdir, texts)
    out = [None] * len(cases)
    for sh, (rc, o) in zip(shards, res):
        pairs = vlib.parse_eval_pairs(o) if rc == 0 else None
        if pairs is None or len(pairs) != len(sh):
            return None, o
        for k, t in enumerate(pairs):
            out[sh[k]] = dict(messages=t[1], lo=(t[2], t[3], t[4]), hi=(t[5], t[6], t[7]), derr_lo=t[8], derr_hi=t[9],
                              dlerr_lo=t[10], dlerr_hi=t[11], dok_lo=t[12])
    return out, ""


def model_rows_agree(cases, workdir):
    """Corr.C17a.rows_agree: the cache state machine of Model/Caches.v and Model/Retain.v on the same layouts.
    returns list of (caches 8-tuple, retain 8-tuple) or None"""
    hdr = (vlib.COQ_PRINT_HDR + "From Coq Require Import List NArith Bool.\nImport ListNotations.\n"
           "From S4.Corr Require Import C17a.\nOpen Scope N_scope.\n")
    idx = list(range(len(cases)))
    idx.sort(key=lambda i: -sum(l for l, _ in layout_of(cases[i])))
    shards = [idx[i::vlib.NCPU] for i in range(min(vlib.NCPU, len(idx)))]
    texts = []
    for sh in shards:
        rows = []
        for i in sh:
            c = cases[i]
            if c.get("avoid_edges"):
                pre, base, rep = layout_of(c), [], 0
            else:
                pre, base, rep = prefix_of(c), c["base"], c["mult"]
            rows.append("(%s, %s, %d%%nat, %d)" % (coq_layout(pre), coq_layout(base), rep, c["bs"]))
        texts.append(hdr + "Definition cases : list acase := [\n%s\n].\nEval vm_compute in (rows_agree cases).\n" % ";\n".join(rows))
    res = vlib.coq_eval_shards(workdir, texts)
    out = [None] * len(cases)
    for sh, (rc, o) in zip(shards, res):
        pairs = vlib.parse_eval_pairs(o) if rc == 0 else None
        if pairs is None or len(pairs) != len(sh):
            return None, o
        for k, t in enumerate(pairs):
            out[sh[k]] = (tuple(t[1:9]), tuple(t[9:17]))
    return out, ""


def model_rows_w2(cases, H, workdir):
    """evaluate Corr.C17.rows_w2 (any window, any container; each case has "ta" / "tb" or None)"""
    hdr = (vlib.COQ_PRINT_HDR + "From Coq Require Import List NArith Bool.\nImport ListNotations.\n"
           "From S4.Model Require Import Retain.\nFrom S4.Corr Require Import C17.\nOpen Scope N_scope.\n")
    idx = list(range(len(cases)))
    idx.sort(key=lambda i: -len(cases[i]["base"]) * cases[i]["mult"])
    shards = [idx[i::vlib.NCPU] for i in range(min(vlib.NCPU, len(idx)))]
    texts = []
    for sh in shards:
        rows = []
        for i in sh:
            c = cases[i]
            if c.get("avoid_edges"):
                pre, base, rep = layout_of(c), [], 0
            else:
                pre, base, rep = prefix_of(c), c["base"], c["mult"]
            rows.append("(%s, %s, %d%%nat, %d, %s, %d, %d, %d)" % (
                coq_layout(pre), coq_layout(base), rep, c["bs"], "true" if c["container"] != "plain" else "false", H,
                0 if c["ta"] is None else c["ta"] + 1, 0 if c["tb"] is None else c["tb"] + 1))
        texts.append(hdr + "Definition cases : list w2case := [\n%s\n].\nEval vm_compute in (rows_w2 cases).\n" % ";\n".join(rows))
    res = vlib.coq_eval_shards(workdir, texts)
    out = [None] * len(cases)
    for sh, (rc, o) in zip(shards, res):
        pairs = vlib.parse_eval_pairs(o) if rc == 0 else None
        if pairs is None or len(pairs) != len(sh):
            return None, o
        for k, t in enumerate(pairs):
            out[sh[k]] = dict(messages=t[1], lo=(t[2], t[3], t[4]), hi=(t[5], t[6], t[7]), derr_lo=t[8], derr_hi=t[9],
                              dlerr_lo=t[10], dlerr_hi=t[11], dok_lo=t[12])
    return out, ""


def sim_any(c, lag):
    """python model of a run with any window: (blocks, lines, syslines high, drop_sysline err[, drop_line err])"""
    lay = layout_of(c)
    if c["container"] == "plain":
        return U.sim_cur_w(lay, c["bs"], lag, c.get("ta"), c.get("tb"))
    return U.sim_cur(lay, c["bs"], True, lag, c.get("ta"), c.get("tb"))


def _simany_job(a):
    """bracket of the model for a free schedule: plain files over every constant lag 1..H (not monotone under a
    window), streamed files no lag .. lag H"""
    c, H = a
    lags = range(1, H + 1) if c["container"] == "plain" else (1, H)
    rs = [sim_any(c, lag) for lag in lags]
    return tuple(min(r[i] for r in rs) for i in range(3)), tuple(max(r[i] for r in rs) for i in range(3))


def window_on_streamed_file(c):
    """KNOWN-FINDING class F9d: streamed container AND -a given AND at least 8 messages before A"""
    return c["container"] != "plain" and c.get("ta") is not None and c["ta"] >= 8


def set_window(c, fa, fb):
    """place -a at fa and -b at fb of the file (None: absent)"""
    lay = layout_of(c)
    ta = U.window_of(lay, fa) if fa is not None else (None, None)
    tb = U.window_end_of(lay, fb) if fb is not None else (None, None)
    if ta[0] is not None and tb[0] is not None and tb[0] < ta[0]:
        tb = (ta[0], U.stamp("iso", ta[0]).decode())
    c.update(ta=ta[0], tb=tb[0], after=ta[1], before=tb[1], fa=fa, fb=fb)
    return c


def expect_printed(c, nmsg):
    lo = c["ta"] or 0
    hi = c["tb"] if c["tb"] is not None else nmsg - 1
    return max(0, hi - lo + 1)


def _simw_job(a):
    """the windowed model at every constant consumer lag 1..H: (per-mark minimum, per-mark maximum).
    Under a window the marks are not monotone in the lag (a release that fails keeps find_line cache
    entries alive, which evicts older entries sooner, which lets OTHER releases succeed), so the
    bracket for a free schedule is taken over all lags"""
    c, H = a
    lay = layout_of(c)
    rs = [U.sim_cur_w(lay, c["bs"], lag, c["t"]) for lag in range(1, H + 1)]
    return tuple(min(r[i] for r in rs) for i in range(3)), tuple(max(r[i] for r in rs) for i in range(3))


def w_slack(lay, bs):
    """what one find_sysline can store (blocks, lines, messages): tolerance of the windowed bracket,
    because a real schedule is not a constant-lag schedule"""
    span = max(b - a + 1 for a, b in U.msg_spans(lay, bs))
    ml = max(z - a + 1 for a, z in U.messages(lay))
    return (2 * span + 1, ml + 1, 1)


def _sim_job(a):
    c, H = a
    if c.get("notation", "iso") == "yearless":
        return None, None
    lay = layout_of(c)
    st = c["container"] != "plain"
    return U.sim_cur(lay, c["bs"], st, 1), U.sim_cur(lay, c["bs"], st, H)


def grows(vals):
    """linear-growth test on marks measured at sizes s, 4s, 16s[, ...]: the last three keep growing and
    the growth does not slow down (a logarithmic term would give equal steps; linear gives x4 steps)"""
    if len(vals) < 3:
        return False
    a, b, c = vals[-3:]
    return b > a + SLACK and c > b + SLACK and (c - b) >= 2 * (b - a)


def grows_w(vals, unit):
    """linear-growth test under a window.  A x4 larger file costs the binary search at most two more
    iterations (+ the end game), i.e. at most 4 more find_sysline calls, each of which stores at most
    `unit` entries (1 message / ml + 1 lines / 2 span + 1 blocks): steps up to 4 * unit are the
    logarithmic term the property allows.  Linear growth: the last step exceeds that allowance and
    does not slow down."""
    if len(vals) < 3:
        return False
    a, b, c = vals[-3:]
    # under a window the marks are not monotone in the size (which probes land where depends on the layout): a step
    # down followed by a step up of the same order is not growth, so the two steps together must exceed two
    # allowances as well (e.g. 52, 59, 57, 64 at x1 x4 x16 x64, exactly the model's prediction: +12 over six doublings)
    return (c - b) > 4 * unit + SLACK and (c - b) >= 2 * (b - a) and (c - a) > 2 * (4 * unit) + SLACK


# ------------------------------------------------------------------ the check

def run(ctx):
    quick = ctx.quick()
    rng = ctx.rng
    phase = {}
    tph = [time.time()]

    def mark_phase(name):
        phase[name] = round(time.time() - tph[0], 1)
        tph[0] = time.time()

    vlib.proof_stage(ctx, PROP_FILE, [], extra_targets=["Corr/C17.vo", "Corr/C17a.vo", "Corr/C17c.vo"])
    ok, log = vlib.build_s4()
    if not ok:
        ctx.obligation_broken("build", "s4 binary", log)
        return ctx.finish()
    cap = scrape_cap()
    if cap is None:
        ctx.obligation_broken("translator", "CHANNEL_CAPACITY not found in src/bin/s4.rs", "")
        cap = 5
    H = cap + 2
    wc = scrape_window_constants()
    if wc != WINDOW_CONSTANTS:
        ctx.obligation_broken("translator", "cache capacities / SYSLOG_SZ_MAX in the source differ from the constants of Model/RetainSearch.v",
                              json.dumps(dict(source=wc, model=WINDOW_CONSTANTS)))
    root = vlib.scratch_dir("C17")
    containers = ["plain", "gz", "bz2"] + (["lz4"] if U.have_lz4() else [])
    nrun = [0]

    def nxt():
        nrun[0] += 1
        return nrun[0]

    mark_phase("proof+build")
    # ---------------------------------------------------------------- B cases
    bcases = []
    nb = 110 if quick else 420
    kinds = ["short", "multi", "long", "edgey", "safe"]
    for i in range(nb):
        kind = kinds[i % len(kinds)]
        bs = rng.choice([64, 64, 128, 256, 512, 1024, 4096] if kind != "safe" else [4096, 8192, 16384, 65536])
        if kind == "long":
            bs = rng.choice([64, 128, 256, 512])
        nm = rng.randrange(40, 260 if quick else 500)
        base = gen_base(rng, kind, bs, nm)
        cont = containers[(i // len(kinds)) % len(containers)] if i % 3 else "plain"
        bcases.append(dict(kind=kind, bs=bs, container=cont, base=base, mult=rng.choice([1, 2, 4]),
                           avoid_edges=(kind == "safe" and rng.random() < 0.7)))
    # hand-picked: the two witness families, a one-message file, exact block multiples
    bcases.append(dict(kind="edge_family", bs=512, container="plain", prefix=[], base=[(64, True)] * 100, mult=4))
    bcases.append(dict(kind="aligned", bs=256, container="plain", prefix=[(32, True)] * 2, base=gen_base(rng, "aligned", 256, 150), mult=2))
    bcases.append(dict(kind="aligned", bs=4096, container="plain", prefix=[(32, True)] * 2, base=gen_base(rng, "aligned", 4096, 400), mult=2))
    bcases.append(dict(kind="lag_family", bs=64, container="plain", base=[(70, True)] * 100, mult=2))
    bcases.append(dict(kind="edge_family", bs=64, container="gz", prefix=[], base=[(64, True)] * 50, mult=2))
    bcases.append(dict(kind="tiny", bs=64, container="plain", base=[(30, True)], mult=1))
    # other timestamp notations (the model does not depend on the notation as long as it carries a year)
    for i, c in enumerate(bcases):
        if i % 4 == 1:
            c["notation"] = "epoch_frac"
        elif i % 4 == 3:
            c["notation"] = "epoch"
    for cont in containers:
        for nt in ("epoch_frac", "epoch"):
            bcases.append(dict(kind="safe", bs=4096, container=cont, notation=nt, base=gen_base(rng, "safe", 4096, 300), mult=2, avoid_edges=True))
    # lines spanning three or more blocks
    for lbs in (4096, 1024, 256):
        bcases.append(dict(kind="longline", bs=lbs, container="plain", base=gen_base(rng, "longline", lbs, 200), mult=2, avoid_edges=True))
    bcases.append(dict(kind="longline", bs=4096, container="gz", base=gen_base(rng, "longline", 4096, 200), mult=2, avoid_edges=True))
    # year-less notation: nothing is dropped (finding F9c); model = C17_retain_yearless_refuted
    ycases = [dict(kind="safe", bs=4096, container=cont, notation="yearless", base=gen_base(rng, "safe", 4096, 200), mult=2, avoid_edges=True)
              for cont in containers]

    model, err = model_rows(bcases, H, os.path.join(CACHE, "cases", "C17", "B"))
    if model is None:
        ctx.obligation_broken("correspondence", "model evaluation (coqc on cases)", err)
        return ctx.finish()
    for c, m in zip(bcases, model):
        if m["wf"] != 1:
            ctx.obligation_broken("correspondence", "wfb false on a generated layout (contradicts C17_layout_msgs_wf: every layout is well-formed)",
                                  json.dumps(dict(kind=c["kind"], bs=c["bs"], mult=c["mult"], base=c["base"][:50])))
            break
        lay = layout_of(c)
        st = c["container"] != "plain"
        s_lo = U.sim_cur(lay, c["bs"], st, 1)
        s_hi = U.sim_cur(lay, c["bs"], st, H)
        if s_lo != tuple(m["lo"]) + (m["derr_lo"],) or s_hi != tuple(m["hi"]) + (m["derr_hi"],):
            ctx.obligation_broken("correspondence", "python transliteration c17_util.sim_cur vs Coq Model.Retain (used for the large files of run C)",
                                  json.dumps(dict(kind=c["kind"], bs=c["bs"], container=c["container"], sim_lo=s_lo, sim_hi=s_hi, coq=m)))
            break
        cls = U.consumer_lag_exceeds_drop_distance(lay, c["bs"], H)
        if cls != (m["derr_hi"] > 0):
            ctx.obligation_broken("correspondence", "class predicate consumer_lag_exceeds_drop_distance vs model derr at maximal lag",
                                  json.dumps(dict(kind=c["kind"], bs=c["bs"], python=cls, model_derr=m["derr_hi"])))
            break

    # B1: lag-free runs
    def b1(ic):
        i, c = ic
        s = run_bin(root, c, "lagfree", 100000 + i, slow_us=250)
        if s is not None and s["drop_sysline_err"] > 0:
            s = run_bin(root, c, "lagfree", 200000 + i, slow_us=2500)
        return s

    with ThreadPoolExecutor(max_workers=vlib.NCPU) as ex:
        r1 = list(ex.map(b1, enumerate(bcases)))
    # B2: free runs
    plans = [None, None, "seed=%d,max_us=0,poll_us=200", "seed=%d,max_us=60,poll_us=60", "seed=%d,max_us=300,poll_us=0"]

    def b2(ic):
        i, c = ic
        p = plans[i % len(plans)]
        if p is None:
            return run_bin(root, c, "free", 300000 + i), None
        p = p % (ctx.seed + i)
        return run_bin(root, c, "plan", 300000 + i, plan=p), p

    with ThreadPoolExecutor(max_workers=vlib.NCPU) as ex:
        r2 = list(ex.map(b2, enumerate(bcases)))

    b1_cmp = b1_dis = b1_rejected = b1_lagged = b2_cmp = b2_dis = 0
    b2_strict_inside = 0
    for c, m, s in zip(bcases, model, r1):
        desc = dict(kind=c["kind"], bs=c["bs"], container=c["container"], mult=c["mult"], base_lines=len(c["base"]),
                    avoid_edges=c.get("avoid_edges", False), base=c["base"] if len(c["base"]) <= 120 else c["base"][:120] + ["..."])
        if s is None:
            ctx.obligation_broken("correspondence", "s4 --summary could not be parsed / run failed (lag-free run)", json.dumps(desc))
            continue
        if s["printed_syslines"] != m["messages"]:
            b1_rejected += 1
            continue
        if s["drop_sysline_err"] > 0:
            b1_lagged += 1
            continue
        b1_cmp += 1
        got = tuple(s[k] for k in MARKS)
        if got != tuple(m["lo"]):
            b1_dis += 1
            if b1_dis <= 3:
                ctx.obligation_broken("correspondence", "--summary blocks/lines/syslines high (consumer keeps up) vs Model.Retain P_cur",
                                      json.dumps(dict(case=desc, impl=got, model=m["lo"], summary=s)))
    if b1_lagged > max(3, len(bcases) // 5):
        ctx.obligation_broken("correspondence", "could not force the lag-free schedule (drop_sysline Err > 0 in %d of %d runs)" % (b1_lagged, len(bcases)), "")
    for c, m, (s, p) in zip(bcases, model, r2):
        if s is None or s["printed_syslines"] != m["messages"]:
            continue
        b2_cmp += 1
        got = tuple(s[k] for k in MARKS)
        if not all(lo <= g <= hi for lo, g, hi in zip(m["lo"], got, m["hi"])):
            b2_dis += 1
            if b2_dis <= 3:
                ctx.obligation_broken("correspondence", "--summary marks (free schedule) outside [model no lag, model lag cap+2]",
                                      json.dumps(dict(kind=c["kind"], bs=c["bs"], container=c["container"], mult=c["mult"], plan=p,
                                                      impl=got, model_lo=m["lo"], model_hi=m["hi"], drop_sysline_err=s["drop_sysline_err"])))
        elif got != tuple(m["lo"]):
            b2_strict_inside += 1

    # B3: year-less notation — every store holds the whole file (C17_retain_yearless_refuted)
    def b3(ic):
        i, c = ic
        return run_bin(root, c, "free", 350000 + i)

    with ThreadPoolExecutor(max_workers=vlib.NCPU) as ex:
        r3 = list(ex.map(b3, enumerate(ycases)))
    b3_cmp = 0
    for c, s3 in zip(ycases, r3):
        if s3 is None or s3["printed_syslines"] != s3["messages"]:
            ctx.obligation_broken("correspondence", "year-less log not processed", json.dumps(dict(container=c["container"], summary=s3)))
            continue
        b3_cmp += 1
        got = (s3["blocks_high"], s3["lines_high"], s3["syslines_high"])
        want = (s3["blocks"], s3["total_lines"], s3["messages"])
        if got != want:
            ctx.obligation_broken("correspondence", "year-less log: marks vs 'everything is kept' (Model.Retain find_all)",
                                  json.dumps(dict(container=c["container"], bs=c["bs"], impl=got, model=want)))



    # ---------------------------------------------------------------- B6: the two models of what the readers keep
    # Model/Caches.v (WP-A: cache state machine, byte level, summary() counters) vs Model/Retain.v on the plain B cases
    acases = [c for c in bcases if c["container"] == "plain" and sum(l for l, _ in layout_of(c)) <= (15000 if quick else 40000)][:(14 if quick else 80)]
    amodel, err = model_rows_agree(acases, os.path.join(CACHE, "cases", "C17", "A"))
    b6_cmp = b6_dis = 0
    if amodel is None:
        ctx.obligation_broken("correspondence", "cross-model evaluation (coqc, Corr.C17a.rows_agree: Model/Caches.v vs Model/Retain.v)", err)
    else:
        bidx = dict((id(c), i) for i, c in enumerate(bcases))
        for c, (ca, re_) in zip(acases, amodel):
            b6_cmp += 1
            mm = model[bidx[id(c)]]
            if ca != re_ or tuple(re_[:3]) != tuple(mm["lo"]):
                b6_dis += 1
                if b6_dis <= 3:
                    ctx.obligation_broken("correspondence", "Model/Caches.v (c_stream, plan of drop_data_try) vs Model/Retain.v (run, consumer keeps up): blocks/lines/syslines high, drop_sysline Ok/Err, stores at the end",
                                          json.dumps(dict(kind=c["kind"], bs=c["bs"], mult=c["mult"], caches=ca, retain=re_, rows_wf=mm["lo"], base=c["base"][:80])))
    mark_phase("B1-B3")
    # ---------------------------------------------------------------- B4: windowed runs (plain, -a)
    wcases = []
    wkinds = ["short", "multi", "long", "edgey", "safe", "longline", "aligned"]
    nw = 10 if quick else 42
    for i in range(nw):
        kind = wkinds[i % len(wkinds)]
        if kind == "safe":
            bs = rng.choice([4096, 8192, 16384])
        elif kind == "long":
            bs = rng.choice([64, 128, 256, 512])
        elif kind == "longline":
            bs = rng.choice([256, 1024, 4096])
        else:
            bs = rng.choice([64, 128, 256, 512, 1024, 4096])
        base = gen_base(rng, kind, bs, rng.randrange(60, 300))
        cw = dict(kind=kind, bs=bs, container="plain", base=base, mult=rng.choice([1, 2, 4]),
                  avoid_edges=(kind in ("safe", "longline") and rng.random() < 0.7))
        for frac in (0.1, 0.5, 0.9):
            c = dict(cw)
            c["frac"] = frac
            c["t"], c["after"] = U.window_of(layout_of(c), frac)
            wcases.append(c)
    # the example of C17_windowed_example and a window at the very first / very last message
    wcases.append(dict(kind="lag_family", bs=64, container="plain", base=[(70, True)] * 100, mult=2, frac=0.5))
    wcases.append(dict(kind="short", bs=64, container="plain", base=gen_base(rng, "short", 64, 120), mult=1, frac=0.0))
    wcases.append(dict(kind="short", bs=256, container="plain", base=gen_base(rng, "short", 256, 120), mult=1, frac=1.0))
    for c in wcases[-3:]:
        c["t"], c["after"] = U.window_of(layout_of(c), c["frac"])
    wmodel, err = model_rows_w(wcases, H, os.path.join(CACHE, "cases", "C17", "W"))
    if wmodel is None:
        ctx.obligation_broken("correspondence", "model evaluation of the windowed cases (coqc, Corr.C17.rows_w)", err)
        wmodel, wcases = [], []
    for c, m in zip(wcases, wmodel):
        lay = layout_of(c)
        s_lo = U.sim_cur_w(lay, c["bs"], 1, c["t"])
        s_hi = U.sim_cur_w(lay, c["bs"], H, c["t"])
        if s_lo != tuple(m["lo"]) + (m["derr_lo"], m["dlerr_lo"]) or s_hi != tuple(m["hi"]) + (m["derr_hi"], m["dlerr_hi"]):
            ctx.obligation_broken("correspondence", "python transliteration c17_util.WindowSim vs Coq Model.RetainSearch (used for the large files of run C)",
                                  json.dumps(dict(kind=c["kind"], bs=c["bs"], t=c["t"], sim_lo=s_lo, sim_hi=s_hi, coq=m)))
            break

    def b4(ic):
        i, c = ic
        m = wmodel[i]
        s = run_bin(root, c, "lagfree", 500000 + i, slow_us=250, after=c["after"])
        if s is not None and s["drop_sysline_err"] != m["derr_lo"]:
            s = run_bin(root, c, "lagfree", 520000 + i, slow_us=2500, after=c["after"])
        return s

    def b4free(ic):
        i, c = ic
        pl = plans[i % len(plans)]
        if pl is None:
            return run_bin(root, c, "free", 540000 + i, after=c["after"]), None
        pl = pl % (ctx.seed + i)
        return run_bin(root, c, "plan", 540000 + i, plan=pl, after=c["after"]), pl

    with ThreadPoolExecutor(max_workers=vlib.NCPU) as ex:
        r4 = list(ex.map(b4, enumerate(wcases)))
    with ThreadPoolExecutor(max_workers=vlib.NCPU) as ex:
        r4f = list(ex.map(b4free, enumerate(wcases)))
    b4_cmp = b4_dis = b4_lagged = b4f_cmp = b4f_dis = 0
    for c, m, s in zip(wcases, wmodel, r4):
        desc = dict(kind=c["kind"], bs=c["bs"], mult=c["mult"], after=c["after"], t=c["t"], frac=c["frac"], base_lines=len(c["base"]),
                    avoid_edges=c.get("avoid_edges", False), base=c["base"] if len(c["base"]) <= 120 else c["base"][:120] + ["..."])
        if s is None:
            ctx.obligation_broken("correspondence", "s4 --summary could not be parsed / run failed (windowed lag-free run)", json.dumps(desc))
            continue
        if s["printed_syslines"] != m["messages"] - c["t"]:
            ctx.obligation_broken("correspondence", "windowed run: messages printed vs messages at or after the window start",
                                  json.dumps(dict(case=desc, printed=s["printed_syslines"], expected=m["messages"] - c["t"])))
            continue
        if s["drop_sysline_err"] != m["derr_lo"]:
            b4_lagged += 1          # the consumer did not keep up (more failed releases than the caches alone explain)
            continue
        b4_cmp += 1
        got = tuple(s[k] for k in MARKS) + (s["drop_line_err"],)
        want = tuple(m["lo"]) + (m["dlerr_lo"],)
        if got != want:
            b4_dis += 1
            if b4_dis <= 3:
                ctx.obligation_broken("correspondence", "--summary blocks/lines/syslines high + drop_line Err of a WINDOWED run (consumer keeps up) vs Model.RetainSearch P_cur",
                                      json.dumps(dict(case=desc, impl=got, model=want, summary=s)))
    if wcases and b4_lagged > max(3, len(wcases) // 4):
        ctx.obligation_broken("correspondence", "could not force the lag-free schedule in the windowed runs (%d of %d)" % (b4_lagged, len(wcases)), "")
    with ProcessPoolExecutor(max_workers=vlib.NCPU) as ex:
        w4_brackets = list(ex.map(_simw_job, [(c, H) for c in wcases], chunksize=2))
    for c, m, (s, pl), (blo, bhi) in zip(wcases, wmodel, r4f, w4_brackets):
        if s is None or s["printed_syslines"] != m["messages"] - c["t"]:
            continue
        b4f_cmp += 1
        got = tuple(s[k] for k in MARKS)
        sl = w_slack(layout_of(c), c["bs"])
        if not all(lo - d <= g <= hi + d for lo, g, hi, d in zip(blo, got, bhi, sl)):
            b4f_dis += 1
            if b4f_dis <= 3:
                ctx.obligation_broken("correspondence", "--summary marks of a WINDOWED run (free schedule) outside the bracket of the model over the consumer lags 1..cap+2",
                                      json.dumps(dict(kind=c["kind"], bs=c["bs"], mult=c["mult"], after=c["after"], plan=pl,
                                                      impl=got, model_min=blo, model_max=bhi, slack=sl, drop_sysline_err=s["drop_sysline_err"])))


    mark_phase("B4 windowed")
    # ---------------------------------------------------------------- B5: every kind of window
    # plain: -b, -a -b; streamed: -a (finding F9d: the linear search stores everything before A), -b, -a -b
    w2cases = []
    streamed_c = [x for x in containers if x != "plain"]
    k5 = 0
    for kind, bs in (("short", 64), ("multi", 256), ("safe", 4096), ("long", 128), ("edgey", 512), ("longline", 1024)) if quick else \
            tuple((k, b) for k in ("short", "multi", "safe", "long", "edgey", "longline", "aligned") for b in ((64, 1024) if k != "safe" else (4096, 16384))):
        base = gen_base(rng, kind, bs, rng.randrange(60, 220))
        for cont, modes in (("plain", ("b", "ab")), (streamed_c[k5 % len(streamed_c)], ("a", "b", "ab"))):
            for mode in modes:
                c = dict(kind=kind, bs=bs, container=cont, base=base, mult=rng.choice([1, 2]), mode=mode,
                         avoid_edges=(kind in ("safe", "longline")))
                fa = rng.choice([0.1, 0.5, 0.9]) if "a" in mode else None
                fb = None
                if "b" in mode:
                    fb = rng.choice([0.3, 0.7, 0.95]) if fa is None else min(0.99, fa + rng.choice([0.05, 0.2, 0.4]))
                w2cases.append(set_window(c, fa, fb))
        k5 += 1
    w2model, err = model_rows_w2(w2cases, H, os.path.join(CACHE, "cases", "C17", "W2"))
    if w2model is None:
        ctx.obligation_broken("correspondence", "model evaluation of the general-window cases (coqc, Corr.C17.rows_w2)", err)
        w2model, w2cases = [], []
    for c, m in zip(w2cases, w2model):
        s_lo, s_hi = sim_any(c, 1), sim_any(c, H)
        coq_lo = tuple(m["lo"]) + (m["derr_lo"],) + ((m["dlerr_lo"],) if c["container"] == "plain" else ())
        coq_hi = tuple(m["hi"]) + (m["derr_hi"],) + ((m["dlerr_hi"],) if c["container"] == "plain" else ())
        if s_lo != coq_lo or s_hi != coq_hi:
            ctx.obligation_broken("correspondence", "python transliteration (c17_util.WindowSim / sim_cur with a window) vs Coq w_run2 / sw_run",
                                  json.dumps(dict(kind=c["kind"], bs=c["bs"], container=c["container"], ta=c["ta"], tb=c["tb"], sim_lo=s_lo, sim_hi=s_hi, coq=m)))
            break

    def b5(ic):
        i, c = ic
        m = w2model[i]
        s = run_bin(root, c, "lagfree", 700000 + i, slow_us=250, after=c["after"], before=c["before"])
        if s is not None and s["drop_sysline_err"] != m["derr_lo"]:
            s = run_bin(root, c, "lagfree", 720000 + i, slow_us=2500, after=c["after"], before=c["before"])
        return s

    def b5free(ic):
        i, c = ic
        pl = plans[i % len(plans)]
        if pl is None:
            return run_bin(root, c, "free", 740000 + i, after=c["after"], before=c["before"]), None
        pl = pl % (ctx.seed + i)
        return run_bin(root, c, "plan", 740000 + i, plan=pl, after=c["after"], before=c["before"]), pl

    with ProcessPoolExecutor(max_workers=max(2, vlib.NCPU // 2)) as pex:
        w5_futs = [pex.submit(_simany_job, (c, H)) for c in w2cases]
        with ThreadPoolExecutor(max_workers=vlib.NCPU) as ex:
            r5 = list(ex.map(b5, enumerate(w2cases)))
        with ThreadPoolExecutor(max_workers=vlib.NCPU) as ex:
            r5f = list(ex.map(b5free, enumerate(w2cases)))
        w5_brackets = [f.result() for f in w5_futs]
    b5_cmp = b5_dis = b5_lagged = b5f_cmp = b5f_dis = 0
    b5_hist = {}
    for c, m, s in zip(w2cases, w2model, r5):
        desc = dict(kind=c["kind"], bs=c["bs"], container=c["container"], mult=c["mult"], after=c["after"], before=c["before"], ta=c["ta"], tb=c["tb"],
                    avoid_edges=c.get("avoid_edges", False), base=c["base"] if len(c["base"]) <= 120 else c["base"][:120] + ["..."])
        if s is None:
            ctx.obligation_broken("correspondence", "s4 --summary could not be parsed / run failed (window -a/-b, lag-free run)", json.dumps(desc))
            continue
        if s["printed_syslines"] != expect_printed(c, m["messages"]):
            ctx.obligation_broken("correspondence", "window -a/-b: messages printed vs messages inside the window",
                                  json.dumps(dict(case=desc, printed=s["printed_syslines"], expected=expect_printed(c, m["messages"]))))
            continue
        if s["drop_sysline_err"] != m["derr_lo"]:
            b5_lagged += 1
            continue
        b5_cmp += 1
        hk = "%s/%s" % ("plain" if c["container"] == "plain" else "streamed", c["mode"])
        b5_hist[hk] = b5_hist.get(hk, 0) + 1
        got = tuple(s[k] for k in MARKS) + ((s["drop_line_err"],) if c["container"] == "plain" else ())
        want = tuple(m["lo"]) + ((m["dlerr_lo"],) if c["container"] == "plain" else ())
        if got != want:
            b5_dis += 1
            if b5_dis <= 3:
                ctx.obligation_broken("correspondence", "--summary marks of a run with a window (-a / -b, plain or streamed; consumer keeps up) vs Model.RetainSearch w_run2 / sw_run",
                                      json.dumps(dict(case=desc, impl=got, model=want, summary=s)))
    if w2cases and b5_lagged > max(3, len(w2cases) // 3):
        ctx.obligation_broken("correspondence", "could not force the lag-free schedule in the window runs (%d of %d)" % (b5_lagged, len(w2cases)), "")
    for c, m, (s, pl), (blo, bhi) in zip(w2cases, w2model, r5f, w5_brackets):
        if s is None or s["printed_syslines"] != expect_printed(c, m["messages"]):
            continue
        b5f_cmp += 1
        got = tuple(s[k] for k in MARKS)
        sl = w_slack(layout_of(c), c["bs"]) if c["container"] == "plain" else (0, 0, 0)
        if not all(lo - d <= g <= hi + d for lo, g, hi, d in zip(blo, got, bhi, sl)):
            b5f_dis += 1
            if b5f_dis <= 3:
                ctx.obligation_broken("correspondence", "--summary marks of a run with a window (free schedule) outside the bracket of the model",
                                      json.dumps(dict(kind=c["kind"], bs=c["bs"], container=c["container"], after=c["after"], before=c["before"], plan=pl,
                                                      impl=got, model_min=blo, model_max=bhi, slack=sl, drop_sysline_err=s["drop_sysline_err"])))
    mark_phase("B5 windows")
    # ---------------------------------------------------------------- C: growth search
    mults = [1, 4, 16, 64] if quick else [1, 4, 16, 64, 256]
    configs = []
    ncfg = 56 if quick else 154
    ckinds = ["short", "multi", "long", "edgey", "safe", "safe", "safe"]
    for i in range(ncfg):
        kind = ckinds[i % len(ckinds)]
        if kind == "safe":
            bs = rng.choice([4096, 8192, 16384, 65536])
        elif kind == "long":
            bs = rng.choice([64, 128, 256, 512, 1024])
        else:
            bs = rng.choice([64, 128, 512, 1024, 4096, 16384])
        cont = containers[i % len(containers)] if (i // len(ckinds)) % 2 else "plain"
        # base of about 6 blocks, at least 24 messages
        avg = dict(short=55, multi=100, long=1.6 * bs, edgey=max(60, bs // 3), safe=max(30, min(400, bs // 16)) * 0.65)[kind]
        nm = int(max(24, min(6 * bs / avg, 1200 if quick else 2500)))
        base = gen_base(rng, kind, bs, nm)
        configs.append(dict(kind=kind, bs=bs, container=cont, base=base, avoid_edges=(kind == "safe")))
    # the two witness families
    configs.append(dict(kind="edge_family", bs=512, container="plain", prefix=[], base=[(64, True)] * 48))
    for abs_ in ([1024, 8192] if quick else [256, 1024, 4096, 8192, 65536]):
        configs.append(dict(kind="aligned", bs=abs_, container="plain", prefix=[(32, True)] * 2,
                            base=gen_base(rng, "aligned", abs_, int(max(24, min(6 * abs_ / 75, 2500))))))
    configs.append(dict(kind="lag_family", bs=64, container="plain", base=[(70, True)] * 40))

    # timestamp notations other than ISO, in every container (block large relative to the lines, edges avoided)
    for nt in ("epoch_frac", "epoch", "yearless"):
        for cont in containers:
            nbs = rng.choice([4096, 8192])
            configs.append(dict(kind="safe", bs=nbs, container=cont, notation=nt, avoid_edges=True,
                                base=gen_base(rng, "safe", nbs, int(6 * nbs / 120))))
    # plain (and one streamed) files whose lines span three or more blocks, edges avoided
    for lbs, cont in ((4096, "plain"), (4096, "plain"), (1024, "plain"), (256, "plain"), (4096, "gz")) + (() if quick else ((16384, "plain"), (512, "plain"), (4096, "bz2"))):
        configs.append(dict(kind="longline", bs=lbs, container=cont, avoid_edges=True, base=gen_base(rng, "longline", lbs, 150)))

    # thousands of messages inside one block (the shortest dated lines at the default block size and above): every
    # per-call or per-block limit of the release path has to keep up with that many messages
    for dbs, cont, nblk in ((65536, "plain", 1.5), (65536, "gz", 1.5), (262144, "plain", 0.4)) + (() if quick else ((65536, "bz2", 1.5), (131072, "gz", 0.8))):
        if cont in containers:
            configs.append(dict(kind="dense", bs=dbs, container=cont, avoid_edges=True, base=gen_base(rng, "dense", dbs, int(nblk * dbs / 23.5 / (1 if quick else 4)))))

    jobs = []
    for ci, cf in enumerate(configs):
        for mu in mults:
            c = dict(cf)
            c["mult"] = mu
            jobs.append((ci, mu, c))

    def cjob(j):
        ci, mu, c = j
        return run_bin(root, c, "free", 400000 + ci * 1000 + mu)

    jobs_sorted = sorted(range(len(jobs)), key=lambda k: -len(jobs[k][2]["base"]) * jobs[k][1])
    # the model's prediction (current policy; python transliteration cross-checked against Coq in B) for every C run,
    # computed while the binary runs
    with ProcessPoolExecutor(max_workers=max(2, vlib.NCPU // 2)) as pex:
        sim_futs = [pex.submit(_sim_job, (jobs[k][2], H)) for k in jobs_sorted]
        with ThreadPoolExecutor(max_workers=max(2, vlib.NCPU // 2)) as ex:
            res_sorted = list(ex.map(lambda k: cjob(jobs[k]), jobs_sorted))
        sims_sorted = [f.result() for f in sim_futs]
    cres = [None] * len(jobs)
    sims_all = [None] * len(jobs)
    for k, r, sm in zip(jobs_sorted, res_sorted, sims_sorted):
        cres[k] = r
        sims_all[k] = sm

    c_growing = c_flat = c_rejected = 0
    c_safe_flat = c_safe_total = 0
    c_interval_cmp = c_interval_bad = 0
    domain_hist = {}
    growth_samples = []
    for ci, cf in enumerate(configs):
        ks = [k for k, j in enumerate(jobs) if j[0] == ci]
        rs = [cres[k] for k in ks]
        sims = [sims_all[k] for k in ks]
        big = dict(cf)
        big["mult"] = mults[-1]
        lay = layout_of(big)
        nt = cf.get("notation", "iso")
        desc0 = dict(kind=cf["kind"], bs=cf["bs"], container=cf["container"], notation=nt, avoid_edges=cf.get("avoid_edges", False))
        if any(r is None for r in rs) or any(r["printed_syslines"] != r["messages"] for r in rs):
            if any(r is None or r["rc"] not in (0,) for r in rs):
                ctx.failure(dict(desc0, base=cf["base"][:200], mults=mults), "a run that ends with a summary", "run failed / hang", [])
            c_rejected += 1
            continue
        yearless = nt == "yearless"
        in_lag = U.consumer_lag_exceeds_drop_distance(lay, cf["bs"], min(H, RECORDED_CAP + 2))
        in_edge = U.line_ends_on_block_edge(lay, cf["bs"], cf["container"])
        dom = "yearless" if yearless else (("lag" if in_lag else "") + ("edge" if in_edge else "") or "outside_known_classes")
        domain_hist[dom] = domain_hist.get(dom, 0) + 1
        if dom == "outside_known_classes":
            c_safe_total += 1
        if not yearless:
            # every run must lie inside [model no lag, model lag cap+2]
            for mu, r, (lo, hi) in zip(mults, rs, sims):
                c_interval_cmp += 1
                got = tuple(r[k] for k in MARKS)
                if not all(a <= g <= b for a, g, b in zip(lo[:3], got, hi[:3])):
                    c_interval_bad += 1
                    if c_interval_bad <= 3:
                        ctx.obligation_broken("correspondence", "--summary marks (run C) outside [model no lag, model lag cap+2]",
                                              json.dumps(dict(desc0, mult=mu, impl=got, model_lo=lo[:3], model_hi=hi[:3])))
        anyg = False
        for mi, mk in enumerate(MARKS):
            vals = [r[mk] for r in rs]
            if grows(vals):
                anyg = True
                classes = []
                if yearless:
                    classes.append("yearless_notation")
                else:
                    # growth is attributed to a recorded finding only as far as the model of the current
                    # policy (which contains both findings) predicts it, at maximal consumer lag
                    explained = all(r[mk] <= hi[mi] for r, (lo, hi) in zip(rs, sims))
                    if explained:
                        if mk == "lines_high" and in_lag:
                            classes.append("consumer_lag_exceeds_drop_distance")
                        if mk == "blocks_high" and cf["container"] == "plain":
                            if in_edge:
                                classes.append("line_ends_on_block_edge")
                            if in_lag:
                                classes.append("consumer_lag_exceeds_drop_distance")
                case = dict(desc0, mults=mults, mark=mk, base=cf["base"], prefix=prefix_of(cf),
                            model_maxlag=[hi[mi] for (lo, hi) in sims] if not yearless else None,
                            drop_sysline_err=[r["drop_sysline_err"] for r in rs], sizes_messages=[r["messages"] for r in rs])
                ctx.failure(case, "%s independent of the file size" % mk, "grows: %s at sizes x%s" % (vals, mults), classes)
                if len(growth_samples) < 8:
                    growth_samples.append(dict(desc0, mark=mk, values=vals, classes=classes))
        if anyg:
            c_growing += 1
        else:
            c_flat += 1
            if dom == "outside_known_classes":
                c_safe_flat += 1


    mark_phase("C")
    # ---------------------------------------------------------------- C-slow: outside the recorded F9a class a slow consumer changes nothing
    # Finding F9a was recorded with the channel capacity RECORDED_CAP: a release fails only when drop_data_try
    # reaches a message fewer than RECORDED_CAP + 2 messages after it was sent.  Files whose drop distance is
    # larger (and that have no line ending on a block edge) are OUTSIDE every recorded class: with the consumer
    # of stdout delayed as far as the channel allows, their marks must stay under the model's marks at lag
    # RECORDED_CAP + 2 and must not grow with the file.  (A deeper channel lets the consumer fall further behind
    # than the drop distance of these files: that retention is not the recorded finding.)
    H_rec = RECORDED_CAP + 2
    sconfigs = []
    # drop distances from just outside the recorded class upward, so that a channel only slightly deeper than
    # the recorded one already has a file here on which the consumer can fall behind the drop
    buckets = [(H_rec, H_rec + 1), (H_rec + 2, 14), (15, 35), (36, 64)]
    for i in range(8 if quick else 20):
        sbs = [512, 1024, 2048, 4096][i % 4]
        cont = "plain" if i % 4 != 3 else "gz"
        dlo, dhi = buckets[i % len(buckets)]
        for _try in range(300):
            # uniform-ish short lines: per2 messages inside the two blocks drop_data_try stays behind
            per2 = rng.randrange(max(6, dlo), 2 * dhi + 4)
            ln = max(24, 2 * sbs // per2)
            base = [(ln + rng.randrange(0, 3), True) for _ in range(max(24, 6 * sbs // ln))]
            cf = dict(kind="slowsafe", bs=sbs, container=cont, base=base, avoid_edges=True)
            d4 = U.min_drop_distance(layout_of(dict(cf, mult=4)), sbs)
            if d4 is None or not (dlo <= d4 <= dhi + 6):
                continue
            lay = layout_of(dict(cf, mult=mults[-1]))
            d = U.min_drop_distance(lay, sbs)
            if d is not None and dlo <= d <= dhi and not U.line_ends_on_block_edge(lay, sbs, cont):
                cf["drop_distance"] = d
                sconfigs.append(cf)
                break
    # the Coq model itself on these files (x4): at lag RECORDED_CAP + 2 no release fails (the hypothesis derr = 0 of
    # C17_cur_no_failed_release_bounded), and the python transliteration used for the large sizes agrees with it
    scases = [dict(cf, mult=4) for cf in sconfigs]
    smodel, serr = model_rows(scases, H_rec, os.path.join(CACHE, "cases", "C17", "S")) if scases else ([], "")
    cs_model_cmp = 0
    if smodel is None:
        ctx.obligation_broken("correspondence", "model evaluation (coqc on the slow-consumer cases)", serr)
        smodel = []
    for c, m in zip(scases, smodel):
        cs_model_cmp += 1
        sim = U.sim_cur(layout_of(c), c["bs"], c["container"] != "plain", H_rec)
        if m["derr_hi"] != 0 or sim != tuple(m["hi"]) + (m["derr_hi"],):
            ctx.obligation_broken("correspondence", "Model.Retain at lag %d on a file outside the recorded F9a class: derr must be 0 and equal the python transliteration" % H_rec,
                                  json.dumps(dict(bs=c["bs"], container=c["container"], drop_distance=c["drop_distance"], coq=m, python=sim, base=c["base"][:60])))
            break
    # ... and the geometric predicate of C17_far_no_failed_release (RetainFar.farb) against the harness's drop distance:
    # farb Hrec and farb d hold, farb (d + 1) does not; the model has derr = 0 at lags Hrec and d and derr > 0 at d + 1;
    # the converse predicate reached_heldb (C17_reached_held_fails) is false at d and true at d + 1; no_edgeb holds (the
    # files avoid block edges), so C17_layout_outside_classes_bounded applies to them: the property holds for the model
    cs_far_cmp = 0
    if scases:
        fhdr = (vlib.COQ_PRINT_HDR + "From Coq Require Import List NArith Bool.\nImport ListNotations.\n"
                "From S4.Corr Require Import C17 C17c.\nOpen Scope N_scope.\n")
        frows = []
        for c in scases:
            frows.append("(%s, [], 0%%nat, %d, %s, %d, %d)" % (coq_layout(layout_of(c)), c["bs"],
                         "true" if c["container"] != "plain" else "false", H_rec, U.min_drop_distance(layout_of(c), c["bs"])))
        ftexts = [fhdr + "Definition cases : list fcase := [\n%s\n].\nEval vm_compute in (rows_far cases).\n" % ";\n".join(frows[k::4]) for k in range(min(4, len(frows)))]
        fres = vlib.coq_eval_shards(os.path.join(CACHE, "cases", "C17", "F"), ftexts)
        for k, (rc, o) in enumerate(fres):
            pairs = vlib.parse_eval_pairs(o) if rc == 0 else None
            if pairs is None or len(pairs) != len(frows[k::4]):
                ctx.obligation_broken("correspondence", "model evaluation (coqc on Corr.C17c.rows_far)", o[-2000:])
                break
            for c, t in zip(scases[k::4], pairs):
                cs_far_cmp += 1
                d4 = U.min_drop_distance(layout_of(c), c["bs"])
                if not (t[1] == 1 and t[2] == 1 and t[3] == 0 and t[4] == 0 and t[5] == 0 and t[6] > 0 and t[7] == 0 and t[8] == 1 and t[9] == 1):
                    ctx.obligation_broken("correspondence", "RetainFar.farb / Model.Retain derr vs the harness's drop distance (class predicate of finding F9a and its complement)",
                                          json.dumps(dict(bs=c["bs"], container=c["container"], drop_distance_x4=d4, H_rec=H_rec,
                                                          coq_row=dict(farb_Hrec=t[1], farb_d=t[2], farb_d1=t[3], derr_Hrec=t[4], derr_d=t[5], derr_d1=t[6], reached_heldb_d=t[7], reached_heldb_d1=t[8], no_edgeb=t[9]),
                                                          base=c["base"][:60])))
                    break
    sjobs = [(ci, mu, dict(cf, mult=mu)) for ci, cf in enumerate(sconfigs) for mu in mults]

    def sjob(j):
        ci, mu, c = j
        return run_bin(root, c, "plan", 450000 + ci * 1000 + mu, plan="seed=%d,max_us=0,poll_us=200" % (ctx.seed + ci))

    with ThreadPoolExecutor(max_workers=max(2, vlib.NCPU // 2)) as ex:
        sres = list(ex.map(sjob, sjobs))
    cs_cmp = cs_bad = cs_grow = 0
    cs_err_max = 0
    for ci, cf in enumerate(sconfigs):
        rs = [r for (cj, mu, c), r in zip(sjobs, sres) if cj == ci]
        desc0 = dict(kind=cf["kind"], bs=cf["bs"], container=cf["container"], avoid_edges=True, plan="max_us=0,poll_us=200",
                     drop_distance=cf["drop_distance"],
                     recorded_channel_capacity=RECORDED_CAP, channel_capacity_in_source=cap)
        if any(r is None or r["printed_syslines"] != r["messages"] for r in rs):
            ctx.failure(dict(desc0, base=cf["base"][:200], mults=mults), "a run that ends with a summary", "run failed / hang", [])
            continue
        bad = False
        for mu, r in zip(mults, rs):
            cs_cmp += 1
            cs_err_max = max(cs_err_max, r["drop_sysline_err"])
            hi = U.sim_cur(layout_of(dict(cf, mult=mu)), cf["bs"], cf["container"] != "plain", H_rec)
            got = tuple(r[k] for k in MARKS)
            if (not all(g <= h for g, h in zip(got, hi[:3])) or r["drop_sysline_err"] > hi[3]) and not bad:
                bad = True
                cs_bad += 1
                ctx.failure(dict(desc0, mult=mu, base=cf["base"], prefix=prefix_of(cf), drop_sysline_err=r["drop_sysline_err"]),
                            "marks %s at most the model's marks at consumer lag %d = %s (file outside every recorded class: drop distance %s >= %d, no block edge)"
                            % (MARKS, H_rec, list(hi[:3]), U.min_drop_distance(layout_of(dict(cf, mult=mu)), cf["bs"]), H_rec),
                            "marks %s, drop_sysline Err %d" % (list(got), r["drop_sysline_err"]), [])
        for mi, mk in enumerate(MARKS):
            vals = [r[mk] for r in rs]
            if grows(vals):
                cs_grow += 1
                ctx.failure(dict(desc0, mults=mults, mark=mk, base=cf["base"], prefix=prefix_of(cf),
                                 drop_sysline_err=[r["drop_sysline_err"] for r in rs]),
                            "%s independent of the file size (slow consumer, file outside every recorded class)" % mk,
                            "grows: %s at sizes x%s" % (vals, mults), [])
    if cap is not None and cap != RECORDED_CAP and cs_bad == 0 and cs_grow == 0:
        if cap > RECORDED_CAP:
            ctx.obligation_broken("translator", "CHANNEL_CAPACITY in src/bin/s4.rs is %d, finding F9a (consumer_lag_exceeds_drop_distance) was recorded at %d: "
                                  "the consumer may fall further behind than the recorded class allows" % (cap, RECORDED_CAP), "")
    mark_phase("C-slow")
    # ---------------------------------------------------------------- C, windowed: growth under a window
    # plain files with -a at 10 / 50 / 90 %; and -b, -a -b, and windows on streamed files
    wconfigs = []
    wck = ["safe", "short", "safe", "multi", "edgey", "long", "longline", "safe", "aligned"]
    for i in range(6 if quick else 18):
        kind = wck[i % len(wck)]
        if kind == "safe":
            bs = rng.choice([4096, 8192, 16384])
        elif kind == "long":
            bs = rng.choice([64, 128, 256])
        elif kind == "longline":
            bs = rng.choice([1024, 4096])
        else:
            bs = rng.choice([64, 512, 1024, 4096])
        avg = dict(short=55, multi=100, long=1.6 * bs, edgey=max(60, bs // 3), safe=max(30, min(400, bs // 16)) * 0.65,
                   longline=110, aligned=75)[kind]
        nm = int(max(24, min(6 * bs / avg, 1200 if quick else 2500)))
        wconfigs.append(dict(kind=kind, bs=bs, container="plain", base=gen_base(rng, kind, bs, nm),
                             avoid_edges=(kind in ("safe", "longline"))))
    wlist = [(cf, frac, None) for cf in wconfigs for frac in (0.1, 0.5, 0.9)]
    # other windows, on logs outside the classes F9a / F9b (block large relative to the lines, edges avoided)
    xs = [("gz", 0.9, None), (streamed_c[1 % len(streamed_c)], 0.5, None), ("plain", None, 0.6), ("gz", None, 0.6),
          ("plain", 0.3, 0.8), (streamed_c[-1], 0.3, 0.8)]
    if not quick:
        xs += [(cont, fa, fb) for cont in containers for (fa, fb) in ((0.9, None), (None, 0.9), (0.1, 0.5), (0.5, 0.95))]
    for cont, fa, fb in xs:
        xbs = rng.choice([4096, 8192])
        wlist.append((dict(kind="safe", bs=xbs, container=cont, avoid_edges=True,
                           base=gen_base(rng, "safe", xbs, int(6 * xbs / 120))), fa, fb))
    wjobs = []
    for wi, (cf, fa, fb) in enumerate(wlist):
        for mu in mults:
            c = dict(cf)
            c["mult"] = mu
            wjobs.append((wi, mu, set_window(c, fa, fb)))
    wj_sorted = sorted(range(len(wjobs)), key=lambda k: -len(wjobs[k][2]["base"]) * wjobs[k][1])
    with ProcessPoolExecutor(max_workers=max(2, vlib.NCPU // 2)) as pex:
        wsim_futs = [pex.submit(_simany_job, (wjobs[k][2], H)) for k in wj_sorted]
        with ThreadPoolExecutor(max_workers=max(2, vlib.NCPU // 2)) as ex:
            wres_sorted = list(ex.map(lambda k: run_bin(root, wjobs[k][2], "free", 600000 + k, after=wjobs[k][2]["after"],
                                                        before=wjobs[k][2]["before"]), wj_sorted))
        wsims_sorted = [f.result() for f in wsim_futs]
    wres = [None] * len(wjobs)
    wsims_all = [None] * len(wjobs)
    for k, r, sm in zip(wj_sorted, wres_sorted, wsims_sorted):
        wres[k] = r
        wsims_all[k] = sm
    cw_growing = cw_flat = cw_rejected = cw_interval_cmp = cw_interval_bad = 0
    cw_safe_flat = cw_safe_total = 0
    cw_log_samples = []
    cw_hist = {}
    for wi, (cf, fa, fb) in enumerate(wlist):
        ks = [k for k, j in enumerate(wjobs) if j[0] == wi]
        rs = [wres[k] for k in ks]
        sims = [wsims_all[k] for k in ks]
        cs = [wjobs[k][2] for k in ks]
        plain = cf["container"] == "plain"
        desc0 = dict(kind=cf["kind"], bs=cf["bs"], container=cf["container"], notation="iso", avoid_edges=cf.get("avoid_edges", False),
                     after_frac=fa, before_frac=fb)
        hk = "%s/%s%s" % ("plain" if plain else "streamed", "a" if fa is not None else "", "b" if fb is not None else "")
        cw_hist[hk] = cw_hist.get(hk, 0) + 1
        if any(r is None for r in rs) or any(r["printed_syslines"] != expect_printed(c, r["messages"]) for r, c in zip(rs, cs)):
            if any(r is None or r["rc"] not in (0,) for r in rs):
                ctx.failure(dict(desc0, base=cf["base"][:200], mults=mults), "a windowed run that ends with a summary", "run failed / hang", [])
            else:
                ctx.obligation_broken("correspondence", "windowed run (search C): messages printed vs messages inside the window",
                                      json.dumps(dict(desc0, printed=[r["printed_syslines"] for r in rs],
                                                      expected=[expect_printed(c, r["messages"]) for r, c in zip(rs, cs)])))
            cw_rejected += 1
            continue
        big = layout_of(cs[-1])
        in_lag = U.consumer_lag_exceeds_drop_distance(big, cf["bs"], min(H, RECORDED_CAP + 2))
        in_edge = U.line_ends_on_block_edge(big, cf["bs"], cf["container"])
        in_f9d = window_on_streamed_file(cs[-1])        # -a on a streamed file: the linear search stores everything before A
        if not (in_lag or in_edge or in_f9d):
            cw_safe_total += 1
        for mu, r, (lo, hi), cc in zip(mults, rs, sims, cs):
            cw_interval_cmp += 1
            got = tuple(r[k] for k in MARKS)
            sl = w_slack(layout_of(cc), cf["bs"]) if plain else (0, 0, 0)
            if not all(a - d <= g <= b + d for a, g, b, d in zip(lo[:3], got, hi[:3], sl)):
                cw_interval_bad += 1
                if cw_interval_bad <= 3:
                    ctx.obligation_broken("correspondence", "--summary marks of a WINDOWED run (search C) outside the bracket of the model over the consumer lags 1..cap+2",
                                          json.dumps(dict(desc0, mult=mu, impl=got, model_min=lo[:3], model_max=hi[:3], slack=sl)))
        anyg = False
        msp = U.msg_spans(big, cf["bs"])
        span = max(b - a + 1 for a, b in msp)
        ml = max(z - a + 1 for a, z in U.messages(big))
        units = dict(blocks_high=2 * span + 1, lines_high=ml + 1, syslines_high=1)
        for mi, mk in enumerate(MARKS):
            vals = [r[mk] for r in rs]
            # the logarithmic allowance only exists where the reader searches: a plain file with -a
            g = grows_w(vals, units[mk]) if (plain and fa is not None) else grows(vals)
            if g:
                anyg = True
                classes = []
                if all(r[mk] <= hi[mi] for r, (lo, hi) in zip(rs, sims)):
                    if in_f9d and mk in ("lines_high", "syslines_high"):
                        classes.append("window_on_streamed_file")
                    if mk == "lines_high" and in_lag:
                        classes.append("consumer_lag_exceeds_drop_distance")
                    if mk == "blocks_high" and plain:
                        if in_edge:
                            classes.append("line_ends_on_block_edge")
                        if in_lag:
                            classes.append("consumer_lag_exceeds_drop_distance")
                case = dict(desc0, mults=mults, mark=mk, base=cf["base"], prefix=prefix_of(cf), unit=units[mk],
                            model_maxlag=[hi[mi] for (lo, hi) in sims],
                            drop_sysline_err=[r["drop_sysline_err"] for r in rs], sizes_messages=[r["messages"] for r in rs])
                what = ("%s under a window grows at most with the logarithm of the file size" % mk) if (plain and fa is not None) \
                    else ("%s independent of the file size (window%s%s)" % (mk, " -a" if fa is not None else "", " -b" if fb is not None else ""))
                ctx.failure(case, what, "grows linearly: %s at sizes x%s (-a at %s, -b at %s of the file)" % (vals, mults, fa, fb), classes)
                if len(growth_samples) < 14:
                    growth_samples.append(dict(desc0, mark=mk, values=vals, classes=classes))
        if anyg:
            cw_growing += 1
        else:
            cw_flat += 1
            if not (in_lag or in_edge or in_f9d):
                cw_safe_flat += 1
                if len(cw_log_samples) < 5:
                    cw_log_samples.append(dict(desc0, blocks_high=[r["blocks_high"] for r in rs], lines_high=[r["lines_high"] for r in rs],
                                               syslines_high=[r["syslines_high"] for r in rs], sizes_messages=[r["messages"] for r in rs]))

    mark_phase("C windowed")
    # ---------------------------------------------------------------- evidence
    allruns = [r for r in r1 if r] + [r for r, _ in r2 if r] + [r for r in r3 if r] + [r for r in cres if r] + \
        [r for r in r4 if r] + [r for r, _ in r4f if r] + [r for r in wres if r] + [r for r in r5 if r] + [r for r, _ in r5f if r]
    distinct = len(set((case_id(c), "lf") for c in bcases)) + len(set((case_id(c), "free") for c in bcases)) + \
        len(set(case_id(j[2]) for j in jobs)) + \
        len(set((case_id(c), c["frac"], "wlf") for c in wcases)) + len(set((case_id(c), c["frac"], "wfree") for c in wcases)) + \
        len(set((case_id(j[2]), j[2]["fa"], j[2]["fb"]) for j in wjobs)) + \
        len(set((case_id(c), c["fa"], c["fb"], m) for c in w2cases for m in ("lf", "free")))
    hist_c = {}
    for c in bcases + [j[2] for j in jobs]:
        k = "%s/%s" % (c["container"], c["kind"])
        hist_c[k] = hist_c.get(k, 0) + 1
    hist_bs = {}
    for c in bcases + [j[2] for j in jobs]:
        hist_bs[str(c["bs"])] = hist_bs.get(str(c["bs"]), 0) + 1
    spans = [m["span"] for m in model]
    ctx.coverage.update(
        evaluations=len(allruns), distinct_nontrivial=distinct,
        rule="runs of the hooked s4 binary with --summary (and, for the windowed runs B4/Cw, -a at 10/50/90 %% of the file) on generated logs (3 short dated lines + a random base layout repeated x1..x%d): kinds short / multi-line messages / messages spanning several blocks / lines placed on block edges / block large relative to the lines with edges avoided; containers %s; block sizes 64..65536; B1 = H1 send delay (consumer keeps up), B2/C = free or planned consumer delays; every case is multi-block and streams through drop_data_try, so all are non-trivial; distinct by (layout, block size, container, repetition, mode)" % (mults[-1], "/".join(containers)),
        samples=[dict(kind=c["kind"], bs=c["bs"], container=c["container"], mult=c["mult"], messages=m["messages"],
                      impl_lagfree=[s[k] for k in MARKS] if s else None, model_nolag=m["lo"], model_maxlag=m["hi"],
                      impl_free=[s2[k] for k in MARKS] if s2 else None)
                 for c, m, s, (s2, _p) in list(zip(bcases, model, r1, r2))[:3] + list(zip(bcases, model, r1, r2))[-4:-2]],
        channel_capacity=cap, H=H, recorded_channel_capacity=RECORDED_CAP, window_constants_scraped=list(wc),
        Cslow_configs=len(sconfigs), Cslow_coq_model_compared=cs_model_cmp, Cslow_farb_compared=cs_far_cmp, Cslow_drop_distances=sorted(cf["drop_distance"] for cf in sconfigs), Cslow_runs_compared=cs_cmp, Cslow_above_model_at_recorded_lag=cs_bad, Cslow_growing=cs_grow,
        Cslow_drop_sysline_err_max=cs_err_max,
        B1_exact_compared=b1_cmp, B1_disagreements=b1_dis, B1_rejected_by_blockzero_gate=b1_rejected, B1_not_lagfree=b1_lagged,
        B2_interval_compared=b2_cmp, B2_outside_interval=b2_dis, B2_strictly_above_nolag=b2_strict_inside,
        traces_validated_against_impl=b1_cmp + b2_cmp,
        model_span_max=max(spans) if spans else None,
        C_configs=len(configs), C_sizes=mults, C_growing=c_growing, C_flat=c_flat, C_rejected=c_rejected,
        C_domain_histogram=domain_hist, C_outside_known_classes_flat="%d of %d" % (c_safe_flat, c_safe_total),
        C_growth_samples=growth_samples, C_interval_compared=c_interval_cmp, C_outside_interval=c_interval_bad,
        B3_yearless_compared=b3_cmp, phase_seconds=phase,
        B6_caches_vs_retain_compared=b6_cmp, B6_caches_vs_retain_disagreements=b6_dis,
        B4_windowed_exact_compared=b4_cmp, B4_windowed_disagreements=b4_dis, B4_windowed_not_lagfree=b4_lagged,
        B4_windowed_interval_compared=b4f_cmp, B4_windowed_outside_interval=b4f_dis,
        B4_windowed_samples=[dict(kind=c["kind"], bs=c["bs"], mult=c["mult"], after=c["after"], t=c["t"], messages=m["messages"],
                                  impl_lagfree=[s[k] for k in MARKS] + [s["drop_sysline_err"], s["drop_line_err"]] if s else None,
                                  model_nolag=list(m["lo"]) + [m["derr_lo"], m["dlerr_lo"]], model_maxlag=list(m["hi"]))
                             for c, m, s in list(zip(wcases, wmodel, r4))[:4]],
        B5_window_exact_compared=b5_cmp, B5_window_disagreements=b5_dis, B5_window_not_lagfree=b5_lagged,
        B5_window_interval_compared=b5f_cmp, B5_window_outside_interval=b5f_dis, B5_window_kinds=b5_hist,
        B5_window_samples=[dict(kind=c["kind"], bs=c["bs"], container=c["container"], after=c["after"], before=c["before"], messages=m["messages"],
                                impl_lagfree=[s[k] for k in MARKS] + [s["drop_sysline_err"]] if s else None,
                                model_nolag=list(m["lo"]) + [m["derr_lo"]], model_maxlag=list(m["hi"]))
                           for c, m, s in list(zip(w2cases, w2model, r5))[:5]],
        Cw_configs=len(wlist), Cw_window_kinds=cw_hist, Cw_growing=cw_growing, Cw_flat=cw_flat, Cw_rejected=cw_rejected,
        Cw_outside_known_classes_flat="%d of %d" % (cw_safe_flat, cw_safe_total), Cw_interval_compared=cw_interval_cmp,
        Cw_outside_interval=cw_interval_bad, Cw_logarithmic_samples=cw_log_samples,
        notation_histogram=dict((nt, sum(1 for c in bcases + ycases + [j[2] for j in jobs] if c.get("notation", "iso") == nt)) for nt in U.NOTATIONS),
        container_kind_histogram=hist_c, blocksize_histogram=hist_bs,
        largest_file_messages=max([r["messages"] for r in allruns] or [0]),
        largest_file_blocks=max([r["blocks"] for r in allruns] or [0]))
    ctx.assumptions += [
        "the property is phrased on the --summary marks (entries of BlockReader.blocks / LineReader.lines / SyslineReader.syslines); real heap use, the allocator, and the index maps that are never pruned (syslines_by_range, foend_to_fobeg, blocks_read) are not measured",
        "hook H1 (S4_VERIF_PLAN slow=) makes the consumer keep up; a run counts as lag-free only if the summary reports drop_sysline Err 0",
        "Model/Retain.v is a hand transcription of exec_syslogprocessor / drop_data_try / drop_data / drop_sysline / drop_line / drop_block and of the streamed look-behind drop; tied only by run B",
        "windowed runs: the block-zero analysis is represented by its residue (1 line + 1 message, or 3 lines + 2 messages from 8096-byte blocks on) for files whose first lines lie inside block zero; message k is stamped with the instant k; windows -a, -b and -a -b are generated on plain files (binary search) and on gz / bz2 / lz4 files (linear search)",
        "Model/Caches.v (WP-A) and Model/Retain.v are tied to the binary separately (C02c / C17); that they agree on a plain file whose consumer keeps up is a theorem for every layout (C17_caches_retain_agree), re-evaluated by B6 on layouts of this run",
        "wfb is still evaluated on every generated layout (now a cross-check of C17_layout_msgs_wf, which proves it for all layouts)"]
    shutil.rmtree(root, ignore_errors=True)
    return ctx.finish()


def replay(ctx, path):
    r = json.load(open(path))
    ok, log = vlib.build_s4()
    root = vlib.scratch_dir("C17")
    H = (scrape_cap() or 5) + 2
    known = set(k["predicate"] for k in ctx.known)
    rc = 0
    for f in r.get("failures", []):
        c = f["case"]
        if "mark" not in c:
            print("replay: case without a growth record:", json.dumps(c)[:300])
            continue
        base = [tuple(x) for x in c["base"]]
        nt = c.get("notation", "iso")
        mk = c["mark"]
        mi = MARKS.index(mk)
        vals, explained = [], True
        for k, mu in enumerate(c["mults"]):
            cc = dict(bs=c["bs"], container=c["container"], base=base, mult=mu, avoid_edges=c.get("avoid_edges", False),
                      prefix=c.get("prefix", PREFIX), notation=nt)
            fa, fb = c.get("after_frac"), c.get("before_frac")
            windowed = fa is not None or fb is not None
            if windowed:
                set_window(cc, fa, fb)
                s = run_bin(root, cc, "free", 900000 + k, after=cc["after"], before=cc["before"])
            else:
                s = run_bin(root, cc, "free", 900000 + k)
            vals.append(s[mk] if s else None)
            if s and nt != "yearless":
                if windowed:
                    hi = _simany_job((cc, H))[1]
                else:
                    hi = U.sim_cur(layout_of(cc), c["bs"], c["container"] != "plain", H)
                explained = explained and s[mk] <= hi[mi]
        g = None not in vals and (grows_w(vals, c.get("unit", 1)) if (c.get("after_frac") is not None and c["container"] == "plain") else grows(vals))
        lay = layout_of(dict(bs=c["bs"], container=c["container"], base=base, mult=c["mults"][-1], avoid_edges=c.get("avoid_edges", False),
                             prefix=c.get("prefix", PREFIX)))
        classes = []
        if nt == "yearless":
            classes.append("yearless_notation")
        elif explained:
            if c.get("after_frac") is not None and mk in ("lines_high", "syslines_high") and \
                    window_on_streamed_file(set_window(dict(bs=c["bs"], container=c["container"], base=base, mult=c["mults"][-1],
                                                            avoid_edges=c.get("avoid_edges", False), prefix=c.get("prefix", PREFIX)),
                                                       c.get("after_frac"), c.get("before_frac"))):
                classes.append("window_on_streamed_file")
            if U.consumer_lag_exceeds_drop_distance(lay, c["bs"], min(H, RECORDED_CAP + 2)) and (mk == "lines_high" or (mk == "blocks_high" and c["container"] == "plain")):
                classes.append("consumer_lag_exceeds_drop_distance")
            if U.line_ends_on_block_edge(lay, c["bs"], c["container"]) and mk == "blocks_high":
                classes.append("line_ends_on_block_edge")
        covered = bool(set(classes) & known)
        print("replay %s bs=%d %s %s%s mark=%s sizes x%s -> %s  grows=%s within-model-of-known-findings=%s classes=%s (recorded: %s)"
              % (c["kind"], c["bs"], c["container"], nt, (" -a at %s -b at %s" % (c.get("after_frac"), c.get("before_frac"))) if (c.get("after_frac") is not None or c.get("before_frac") is not None) else "",
                 mk, c["mults"], vals, g, explained, classes, f["got"]))
        if g and not covered:
            print("VIOLATION property=C17 replay=%s" % path)
            rc = 1
    for b in r.get("no_longer_checks", []):
        print("obligation no longer checks: %s %s\n%s" % (b["kind"], b["name"], b["detail"][:1500]))
        rc = 1
    shutil.rmtree(root, ignore_errors=True)
    return rc
