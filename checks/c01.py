"""C01 — merged output is chronological, with a deterministic tie rule.

A. Coq: Props/C01.v (merge: per-source order, permutation, earliest pending head with
   first-minimum tie rule at every step, sortedness, = stable sort of the concatenation,
   empty sources irrelevant) — about Model/Merge.v.
B. tie: the hooked s4 binary on generated sources under planned schedules; the
   coordinator's trace (R/P/D events of processing_loop) must be reproduced by
   Model/Coord.coord_replay from its own receive events (every receive permitted by the
   model) and the print order must be `merge` of the sources' instants.
C. failing-input search (independent of the model): stdout, attributed to sources by a
   token in every message, must be in the order of the Coq spec `merge` (evaluated by
   coqc on the observed order) and byte-equal to the rendering of an independent python
   k-way merge; every run must end in time with exit status 0.
P. whole invocations (work package H): random invocations with decoration options, a window,
   --blocksz, --summary; stdout AND summary totals vs Program.program_spec (Coq, C) and an
   independent python rendering; for a sample also vs Program.program_m at that block size under
   the schedule recorded by hook H1 (B).  See whole_invocation_stage below.
"""
import json, os, shutil
import vlib
import merge_util as mu
import print_util as pu

PROP = "C01"
OPTS = [["-n"], ["-n"], ["-n", "-u", "-d", "%s%.9f"], ["-p", "-u", "-d", "%s%.9f"], ["-n", "-w"], ["-p"]]
IMPORTS = "From S4.Corr Require Import C01."


def plans_for(rng, inp, k):
    names = [s["name"] for s in inp["sources"]]
    pool = [None,
            "seed=%d,max_us=300" % rng.randrange(1 << 30),
            "seed=%d,max_us=1500,poll_us=300" % rng.randrange(1 << 30),
            "seed=%d,max_us=0,poll_us=1500" % rng.randrange(1 << 30),
            "seed=%d,max_us=100,slow=%s:4000" % (rng.randrange(1 << 30), rng.choice(names)),
            "seed=%d,max_us=3000" % rng.randrange(1 << 30),
            "seed=%d,max_us=50,slow=%s:1500,poll_us=100" % (rng.randrange(1 << 30), rng.choice(names)),
            "seed=%d,max_us=800,poll_us=800" % rng.randrange(1 << 30)]
    return pool[:k]


def ties(inp):
    """(cross-source ties, intra-source ties) among in-window instants"""
    srcs = mu.instants(inp)
    seen = {}
    intra = 0
    for i, l in enumerate(srcs):
        for a, b in zip(l, l[1:]):
            if a == b:
                intra += 1
        for t in set(l):
            seen.setdefault(t, set()).add(i)
    cross = sum(1 for t, ss in seen.items() if len(ss) > 1)
    return cross, intra


def permuted(rng, inp):
    """same files, different argument order (PathIds, hence the tie order, change)"""
    if inp["as_dir"] or len(inp["sources"]) < 2:
        return None
    src = list(inp["sources"])
    rng.shuffle(src)
    if [s["name"] for s in src] == [s["name"] for s in inp["sources"]]:
        src.reverse()
    q = dict(inp)
    q["sources"] = src
    return q


def save_failure(ctx, inp, res, exp_bytes, n):
    return mu.save_failure(PROP, ctx.seed, inp, res["plan"], exp_bytes, n)


def whole_invocation_stage(ctx, scratch, quick):
    """C + B for the composed program (Model/Program.v, Props C01_program_correct):
    C  real binary vs the SPEC `program_spec` evaluated by vm_compute (Corr/C01p.spec_bad): stdout
       bytes and the summary totals (Printed bytes / lines / syslines, first / last printed);
       the python rendering `mu.prog_expected` is a second, independent oracle and gives the
       expected output of a failure;
    B  for a sample, real binary vs the composed code-level MODEL `program_m` at the run's block
       size under the schedule recorded by hook H1 (Corr/C01p.model_bad); third stage: the text
       workers of `program_m` run the CACHED reader machine of Model/Caches.v (block-zero analysis
       pattern, stage driver with a drop plan: Corr/C01p.rps_run) for files without a window and for
       streamed files, journal entries are rendered by Model/JournalRender.v for the drawn
       --journal-output value, the year walk of a year-less file stops early at -a."""
    import time
    t_stage = time.time()
    rng = ctx.rng
    n_inv = 48 if quick else 600
    n_model = 14 if quick else 120
    # 55% text-only invocations (python rendering as second oracle), 45% with sources of other kinds
    # (accounting records, year-less text, journal and event-log fixtures) next to / instead of them
    inps = [mu.prog_input_mixed(rng, k, scratch) if rng.random() < 0.45 else mu.prog_input(rng, k, scratch) for k in range(n_inv)]
    # two --color always invocations per run (text sources): the binary's stdout is compared after its SGR
    # groups are abstracted to ESC + class digit (checks/print_util.abstract_sgr), the form Corr/C01p.enc gives
    # the model's colour switches
    n_colour = 0
    for inp in inps:
        if not inp.get("mixed") and n_colour < (2 if quick else 12):
            inp["colour"] = True
            n_colour += 1
    plan_pool = [None, None, "seed=%d,max_us=300" % rng.randrange(1 << 30), "seed=%d,max_us=1500,poll_us=300" % rng.randrange(1 << 30),
                 "seed=%d,max_us=0,poll_us=1500" % rng.randrange(1 << 30)]
    from concurrent.futures import ThreadPoolExecutor

    def one(k):
        inp = inps[k]
        env = mu.prog_env(inp)
        plan = plan_pool[k % len(plan_pool)]
        if plan:
            env["S4_VERIF_PLAN"] = plan
        tp = os.path.join(scratch, "ptrace-%04d.txt" % k)
        if os.path.exists(tp):
            os.remove(tp)
        env["S4_VERIF_TRACE"] = tp
        rc, out, err = vlib.run_s4(mu.prog_argv(inp), timeout=60, env=env)
        raw = out
        if inp.get("colour"):
            out = pu.abstract_sgr(out)
        return dict(rc=rc, stdout=out, raw_stdout=raw, stderr=err, plan=plan, trace=mu.parse_trace(tp))
    with ThreadPoolExecutor(max_workers=8) as ex:
        results = list(ex.map(one, range(n_inv)))
    cases, fail_n, py_fail = [], 0, {}
    for k, (inp, res) in enumerate(zip(inps, results)):
        if res["stdout"] is None:
            fail_n += 1
            ctx.failure(mu.prog_save_failure(PROP, ctx.seed, inp, res["plan"], fail_n), "every escape sequence on stdout is a termcolor set_color group",
                        "an escape sequence of another shape: %r" % res["raw_stdout"][:200])
            res["stdout"] = b""
        exp, nums, order = mu.prog_expected(inp)
        got = mu.prog_summary_nums(res["stderr"]) if (inp["summary"] and res["rc"] == 0) else []
        res["nums"], res["exp"], res["exp_nums"], res["order"] = got, exp, nums, order
        cases.append(mu.prog_coq_case(inp, res["stdout"], got))
        if exp is not None and (res["rc"] != 0 or res["stdout"] != exp or (inp["summary"] and got != nums)):
            py_fail[k] = True
    t_runs = time.time() - t_stage
    okc, bad, logc = mu.prog_eval(os.path.join(vlib.CACHE, "cases", PROP, "pspec"), "spec_bad", cases, "spec_case")
    t_spec = time.time() - t_stage - t_runs
    if not okc:
        ctx.obligation_broken("spec-evaluation", "coqc on whole-invocation cases (Corr/C01p.spec_bad)", logc)
        bad = {}
    out_of_gate = sum(1 for c in bad.values() if c == 8)
    out_of_domain = [k for k, c in bad.items() if c >= 9000000]
    for k in out_of_domain:
        si = bad[k] - 9000000
        kind = inps[k]["sources"][si].get("kind", "text") if si < len(inps[k]["sources"]) else "?"
        if kind == "yearless" and inps[k]["lo"] is not None:
            continue                      # the walk stopped early at -a leaves the messages above the stop in the filler year: not
                                          # chronological across a year boundary, or inside the window (finding F17): Program.src_ok excludes both
        if kind in ("text", "sorted", "yearless", "evtx"):
            # these are generated inside the domain: a defect of the generator
            ctx.obligation_broken("generator", "whole-invocation case outside Program.domain (source %d, %s)" % (si, kind), json.dumps(mu.prog_describe(inps[k])))
            break
    if len(out_of_domain) > max(3, n_inv // 8):
        ctx.obligation_broken("generator", "%d of %d whole invocations outside Program.domain (layout detection / journal instants)" % (len(out_of_domain), n_inv), "")
    for k, (inp, res) in enumerate(zip(inps, results)):
        code = bad.get(k, 0)
        if code == 8 or code >= 9000000:
            continue                      # 8: stage 1 of the model rejects a text file at this block size (C12 findings); >= 9000000: outside the domain
        if res["rc"] == 124:
            fail_n += 1
            ctx.failure(mu.prog_save_failure(PROP, ctx.seed, inp, res["plan"], fail_n), "terminates", "no exit within 60 s")
        elif res["rc"] != 0:
            fail_n += 1
            ctx.failure(mu.prog_save_failure(PROP, ctx.seed, inp, res["plan"], fail_n), "exit status 0",
                        "exit status %d; stderr %r" % (res["rc"], res["stderr"][-300:].decode("utf-8", "replace")))
        elif code != 0 and okc:
            fail_n += 1
            if res["exp"] is None:
                # mixed kinds: the expected output is the specification's, evaluated by coqc
                res["exp"] = mu.prog_spec_stdout(os.path.join(vlib.CACHE, "cases", PROP, "pexp"), cases[k]) or b""
                res["exp_nums"] = mu.prog_spec_nums(os.path.join(vlib.CACHE, "cases", PROP, "pexp"), cases[k]) if inp["summary"] else None
                res["exp_from_spec"] = True
            if code >= 1000:
                at = code - 1000
                exp_d = dict(stdout_first_difference_at_byte=at, expected_around=res["exp"][max(0, at - 60):at + 60].decode("utf-8", "replace"),
                             expected_bytes=len(res["exp"]))
                got_d = dict(got_around=res["stdout"][max(0, at - 60):at + 60].decode("utf-8", "replace"), got_bytes=len(res["stdout"]))
            else:
                name = ["Printed bytes", "Printed lines", "Printed syslines", "Printed fixedstruct", "Printed evtx events", "Printed journal events",
                        "Datetime printed first (s)", "Datetime printed last (s)"][code - 2]
                exp_d = dict(summary=name, expected=(res["exp_nums"][code - 2] if res["exp_nums"] else "see Corr/C01p.spec_bad on the saved case"), all_expected=res["exp_nums"])
                got_d = dict(summary=name, got=(res["nums"][code - 2] if len(res["nums"]) > code - 2 else None), all_got=res["nums"])
            extra = dict(spec_code=code)
            if res.get("exp_from_spec"):
                extra["expected_stdout_bytes"] = res["exp"]
                if res["exp_nums"]:
                    extra["expect_summary"] = res["exp_nums"]
            ctx.failure(mu.prog_save_failure(PROP, ctx.seed, inp, res["plan"], fail_n, extra=extra), exp_d, got_d)
            if k not in py_fail and not res.get("exp_from_spec"):
                ctx.obligation_broken("oracle", "Program.program_spec (Coq) and the python rendering disagree on a whole invocation",
                                      json.dumps(dict(case=mu.prog_describe(inp), spec_code=code)))
        elif code == 0 and k in py_fail and okc:
            ctx.obligation_broken("oracle", "the python rendering differs from the binary although Program.program_spec agrees",
                                  json.dumps(dict(case=mu.prog_describe(inp), got=res["stdout"][:300].decode("utf-8", "replace"),
                                                  expected=res["exp"][:300].decode("utf-8", "replace"), nums=[res["nums"], res["exp_nums"]])))
    # ---- B: the composed code-level model under the recorded schedule
    sample = [k for k in range(n_inv) if results[k]["rc"] == 0 and bad.get(k, 0) != 8 and bad.get(k, 0) < 9000000]
    sample = ([k for k in sample if inps[k].get("mixed")][:n_model // 2] + [k for k in sample if not inps[k].get("mixed")])[:n_model]
    mcases = []
    for k in sample:
        if results[k]["trace"] is None:
            ctx.obligation_broken("correspondence", "no coordinator trace written (hook H1) for a whole invocation", json.dumps(mu.prog_describe(inps[k])))
            break
        mcases.append("(%s, %s)" % (cases[k], mu.pairs(results[k]["trace"])))
    okm, mbad, logm = mu.prog_eval(os.path.join(vlib.CACHE, "cases", PROP, "pmodel"), "model_bad", mcases, "model_case")
    if not okm:
        ctx.obligation_broken("correspondence", "model evaluation (coqc on whole-invocation cases, Corr/C01p.model_bad)", logm)
    for j, code in sorted(mbad.items())[:1]:
        if code == 8 or code >= 9000000:
            continue
        k = sample[j]
        ctx.obligation_broken("correspondence", "s4 whole invocation vs Model.Program.program_m (cached / block-wise readers + search + coordinator under the recorded schedule + printer + summary)",
                              json.dumps(dict(case=mu.prog_describe(inps[k]), plan=results[k]["plan"], code=code,
                                              meaning="1000+k stdout differs at byte k; 2-9 summary number differs; 21 a worker model ended abnormally; 22 recorded schedule not an execution of Model/Coord; 23 schedule not final",
                                              disagreements=len(mbad))))
    # ---- evidence
    def cross_ties(inp):
        seen = {}
        for i, s in enumerate(inp["sources"]):
            for m in s["msgs"]:
                if mu.prog_in_window(inp, m["inst"]):
                    seen.setdefault(m["inst"], set()).add(i)
        return sum(1 for v in seen.values() if len(v) > 1)
    nontriv = set()
    kind_hist = {}
    for inp in inps:
        for s in inp["sources"]:
            kk = {"sorted": "text"}.get(s.get("kind", "text"), s.get("kind", "text")) + "/" + s["container"]
            kind_hist[kk] = kind_hist.get(kk, 0) + 1
    for inp, res in zip(inps, results):
        deco = bool(inp["fmode"] or inp["zone"] or inp["fmt"] or inp["sep"][0])
        if res["order"] is None:
            if deco and res["stdout"].count(b"\n") >= 2:
                nontriv.add(json.dumps([mu.prog_argv(inp)[:-len(inp["sources"])], [s["name"] for s in inp["sources"]], len(res["stdout"])]))
            continue
        if len(res["order"]) >= 2 and deco:
            nontriv.add(json.dumps([mu.prog_argv(inp)[:-len(inp["sources"])], [[m["inst"] for m in s["msgs"]] for s in inp["sources"]]]))
    jo_hist = {}
    for inp in inps:
        if inp.get("jout") is not None:
            jo_hist[mu.JOURNAL_OUTPUTS[inp["jout"]]] = jo_hist.get(mu.JOURNAL_OUTPUTS[inp["jout"]], 0) + 1
    hist_bs, hist_n = {}, {}
    for inp in inps:
        hist_bs[str(inp["bs"] or 65536)] = hist_bs.get(str(inp["bs"] or 65536), 0) + 1
        hist_n[str(len(inp["sources"]))] = hist_n.get(str(len(inp["sources"])), 0) + 1
    return dict(
        whole_invocations=n_inv, whole_invocations_distinct_nontrivial=len(nontriv),
        whole_invocation_rule="1-5 chronological text files (plain / .gz, ISO timestamps with 6-9 fractional digits and numeric offsets, tie-heavy instants shared across files, 30% multi-line messages, 45% of the files without final newline) x random options (-n/-p, -w, -u/-l(TZ)/-z, -d from 6 formats, 5 prepend separators, 7 separators with escapes) x --blocksz {64,65,100,127,128,500,4096,default} x window (-a and/or -b on an instant present, +-1 us, +-1 ms; 45% none) x --summary (70%) x 5 planned schedules; compared: stdout bytes and Printed bytes/lines/syslines/fixedstruct/evtx/journal + first/last printed second vs Program.program_spec by vm_compute (text-only invocations also vs a python rendering); sample also vs Program.program_m under the recorded recv/print trace; 45% of the invocations hold 1-3 sources of other kinds next to (25%: instead of) the text files: utmpx/lastlog files synthesised by checks/c08_util.py (records in any stored order, equal times, null and 0xFF records) and the wtmp fixture, year-less syslog files (mtime set, year boundary, plain/.gz, fallback zone of -l), the journal fixture (entries read with libsystemd as in checks/c09.py, rendered by Model/JournalRender.v for a drawn --journal-output among the ten values) and the evtx fixture (always windowed to <= 12 events; events = what s4 prints for that file alone); 2 (thorough: 12) text-only invocations run with --color always and are compared after the SGR groups are abstracted to ESC + class digit (checks/print_util.abstract_sgr); non-trivial = at least 2 printed messages and a decoration option",
        whole_invocation_spec_disagreements=sum(1 for c in bad.values() if c != 8 and c < 9000000), whole_invocation_python_disagreements=len(py_fail),
        whole_invocations_colour_always=n_colour,
        whole_invocation_journal_output_histogram=jo_hist,
        whole_invocations_yearless_early_stop_outside_domain=sum(1 for k in out_of_domain if bad[k] - 9000000 < len(inps[k]["sources"]) and inps[k]["sources"][bad[k] - 9000000].get("kind") == "yearless" and inps[k]["lo"] is not None),
        whole_invocation_model_text_workers_on_cached_reader=sum(1 for k in sample[:len(mcases)] for s in inps[k]["sources"] if s.get("kind", "text") in ("text", "sorted")),
        whole_invocation_model_text_workers_binary_search_on_cached_reader=sum(1 for k in sample[:len(mcases)] for s in inps[k]["sources"] if s.get("kind", "text") in ("text", "sorted") and s["container"] != "gz" and (inps[k]["lo"] is not None or inps[k]["hi"] is not None)),
        whole_invocations_mixed_kinds=sum(1 for i in inps if i.get("mixed")), whole_invocation_source_kind_histogram=kind_hist,
        whole_invocations_outside_domain_not_compared=len(out_of_domain),
        whole_invocations_outside_domain_source_kinds=sorted(set(inps[k]["sources"][bad[k] - 9000000].get("kind", "text") for k in out_of_domain if bad[k] - 9000000 < len(inps[k]["sources"]))),
        whole_invocation_wall_runs_s=round(t_runs, 1), whole_invocation_wall_spec_eval_s=round(t_spec, 1),
        whole_invocations_skipped_gate_rejects_at_blocksz=out_of_gate,
        whole_invocation_model_cases=len(mcases), whole_invocation_model_disagreements=sum(1 for c in mbad.values() if c != 8 and c < 9000000),
        whole_invocation_model_cases_mixed_kinds=sum(1 for k in sample[:len(mcases)] if inps[k].get("mixed")),
        whole_invocations_with_window=sum(1 for i in inps if i["lo"] is not None or i["hi"] is not None),
        whole_invocations_with_empty_selection=sum(1 for r in results if not r["stdout"]),
        whole_invocations_with_cross_file_ties_in_window=sum(1 for i in inps if cross_ties(i)),
        whole_invocations_with_multiline_printed=sum(1 for i, r in zip(inps, results) if r["order"] is not None and any(i["sources"][a]["msgs"][[p for p, m in enumerate(i["sources"][a]["msgs"]) if mu.prog_in_window(i, m["inst"])][b]]["cont"] for a, b in r["order"])),
        whole_invocations_with_supplied_newline=sum(1 for i in inps if any((not s.get("final_nl", True)) and s["msgs"] and mu.prog_in_window(i, s["msgs"][-1]["inst"]) for s in i["sources"])),
        whole_invocations_with_gz=sum(1 for i in inps if any(s["container"] == "gz" for s in i["sources"])),
        whole_invocations_with_summary=sum(1 for i in inps if i["summary"]),
        whole_invocation_blocksz_histogram=hist_bs, whole_invocation_files_histogram=hist_n,
        whole_invocation_stage_wall_s=round(time.time() - t_stage, 1),
        whole_invocation_sample=mu.prog_describe(inps[0]))


def run(ctx):
    quick = ctx.quick()
    n_inputs = 40 if quick else 500
    n_plans = 5 if quick else 8
    n_fix = 6 if quick else 60
    n_subus = 12 if quick else 150
    max_src = 8 if quick else 32
    # ---- A
    vlib.proof_stage(ctx, "Props/C01.v", ["coord"], extra_targets=["Corr/C01.vo", "Corr/C01p.vo"])
    ok, log = vlib.build_s4()
    if not ok:
        ctx.obligation_broken("build", "s4 (hooked, release-like)", log)
        return ctx.finish()
    rng = ctx.rng
    scratch = vlib.scratch_dir(PROP)
    inputs = []
    for k, inp in enumerate(mu.corpus_inputs(PROP)):          # corpus first
        mu.write_input(inp, os.path.join(scratch, "corpus%02d" % k), k)
        inputs.append(inp)
    n_corpus = len(inputs)
    for k in range(n_inputs):
        r = rng.random()
        if r < 0.15:
            ns = 1
        elif r < 0.85 or quick:
            ns = rng.randrange(2, 9)
        else:
            ns = rng.randrange(9, max_src + 1)
        inp = mu.gen_input(rng, ns, rng.choice([4, 10, 40]), opts_choices=OPTS)
        mu.write_input(inp, os.path.join(scratch, "in%04d" % k), rng.randrange(1000))
        inputs.append(inp)
        if rng.random() < 0.3:
            q = permuted(rng, inp)
            if q:
                inputs.append(q)
    # instants that differ only below the microsecond across sources (7-9 fractional digits):
    # this class is generated on every run
    for k in range(n_subus):
        inp = mu.subus_input(rng, rng.choice([2, 2, 3, 4, 6, 8]), rng.choice([3, 6, 12]), opts_choices=OPTS)
        mu.write_input(inp, os.path.join(scratch, "subus%04d" % k), rng.randrange(1000))
        inputs.append(inp)
        if rng.random() < 0.3:
            q = permuted(rng, inp)
            if q:
                inputs.append(q)
    # several arguments, some of them (large) directories, ties across arguments: PathId order is
    # the order NAMED, whatever finishes walking first
    for k in range(4 if quick else 40):
        inp = mu.args_input(rng, opts_choices=OPTS)
        mu.write_input(inp, os.path.join(scratch, "args%04d" % k), rng.randrange(1000))
        inputs.append(inp)
    fams = mu.fixture_families()
    if not fams:
        ctx.note("no utmp/evtx/journal fixtures found under %s/logs: only text sources are exercised" % vlib.REPO)
    n_gen = len(inputs)
    for k in range(n_fix if fams else 0):
        inputs.append(mu.fixture_input(rng, fams))
    jobs, meta = [], []
    for ii, inp in enumerate(inputs):
        for pi, plan in enumerate(plans_for(rng, inp, n_plans)):
            tp = os.path.join(scratch, "trace-%04d-%d.txt" % (ii, pi))
            jobs.append((inp, plan, tp, 60))
            meta.append(ii)
    results = mu.run_many(jobs, workers=8)

    # ---- C: stdout vs spec
    exp = [mu.expected_stdout(inp) if not inp.get("fixture") else None for inp in inputs]
    spec_cases, fail_n = [], 0
    bytes_only = 0
    unattributed = 0
    for ri, (ii, res) in enumerate(zip(meta, results)):
        inp = inputs[ii]
        if inp.get("fixture"):
            pr = mu.parse_fixture(inp, res["stdout"]) if res["rc"] == 0 else None
            if pr is None and res["rc"] == 0:
                unattributed += 1
                pr = ([[] for _ in inp["paths"]], [(99, 0)])
            elif pr is None:
                pr = ([[] for _ in inp["paths"]], [])
            res["srcs"], res["obs"] = pr
            exp_order, exp_bytes = mu.kway_merge(res["srcs"]), None
            case = lambda: dict(mu.describe(inp), plan=res["plan"])
        else:
            exp_bytes, exp_order = exp[ii]
            res["srcs"], res["obs"] = mu.instants(inp), mu.observed_order(inp, res["stdout"])
            case = None
        spec_cases.append(mu.coq_case(res["srcs"], res["obs"]))

        def mkcase():
            nonlocal fail_n
            fail_n += 1
            return case() if case else save_failure(ctx, inp, res, exp_bytes, fail_n)
        if res["rc"] == 124:
            ctx.failure(mkcase(), "terminates", "no exit within 60 s")
        elif res["rc"] != 0:
            ctx.failure(mkcase(), "exit status 0",
                        "exit status %d; stderr %r" % (res["rc"], res["stderr"][-300:].decode("utf-8", "replace")))
        elif res["obs"] != exp_order:
            ctx.failure(mkcase(), dict(order_src_pos=exp_order[:200]), dict(order_src_pos=res["obs"][:200]))
        elif exp_bytes is not None and res["stdout"] != exp_bytes:
            bytes_only += 1
            if bytes_only == 1:
                ctx.obligation_broken("oracle", "stdout bytes differ from the rendering although the message order agrees",
                                      json.dumps(dict(case=mu.describe(inp), plan=res["plan"],
                                                      got=res["stdout"][:400].decode("utf-8", "replace"),
                                                      expected=exp_bytes[:400].decode("utf-8", "replace"))))
    if unattributed:
        ctx.obligation_broken("oracle", "%d fixture runs whose output lines could not be attributed to a source and instant" % unattributed, "")
    okc, bad, logc = mu.eval_cases(os.path.join(vlib.CACHE, "cases", PROP, "spec"), IMPORTS, "order_bad", spec_cases)
    if not okc:
        ctx.obligation_broken("spec-evaluation", "coqc on order cases", logc)
    spec_dis = 0
    for ri, code in bad.items():
        spec_dis += 1
        res = results[ri]
        if res["rc"] == 0 and res["obs"] == mu.kway_merge(res["srcs"]):
            # python oracle says equal, Coq merge says different: the two specs disagree
            ctx.obligation_broken("oracle", "python k-way merge and Coq merge disagree",
                                  json.dumps(dict(case=mu.describe(inputs[meta[ri]]), first_difference_at=code)))
        # otherwise already reported as a failure above

    # ---- B: trace vs model
    tr_cases, tr_idx = [], []
    for ri, (ii, res) in enumerate(zip(meta, results)):
        if res["rc"] != 0:
            continue
        if res["trace"] is None:
            ctx.obligation_broken("correspondence", "no coordinator trace written (hook H1)", json.dumps(mu.describe(inputs[ii])))
            break
        tr_cases.append(mu.coq_case(res["srcs"], res["trace"]))
        tr_idx.append(ri)
    okt, tbad, logt = mu.eval_cases(os.path.join(vlib.CACHE, "cases", PROP, "trace"), IMPORTS, "trace_bad 1%nat", tr_cases)
    if not okt:
        ctx.obligation_broken("correspondence", "model evaluation (coqc on trace cases)", logt)
    for k, code in sorted(tbad.items())[:1]:
        ri = tr_idx[k]
        ctx.obligation_broken("correspondence", "processing_loop trace vs Model.Coord.coord_replay / Model.Merge.merge",
                              json.dumps(dict(case=mu.describe(inputs[meta[ri]]), plan=results[ri]["plan"], code=code,
                                              meaning="1-4 receive sequence not permitted by the model; 5 print/disconnect events differ from replay; 6 print order differs from merge",
                                              trace=results[ri]["trace"][:300], disagreements=len(tbad))))

    # ---- P: whole invocations vs Program.program_spec (C) and Program.program_m (B)
    prog_cov = whole_invocation_stage(ctx, scratch, quick)

    # ---- evidence
    gen_inputs = inputs[:n_gen]
    tie_info = [ties(inp) for inp in gen_inputs]
    nontriv = set()
    for ii, inp in enumerate(gen_inputs):
        live = sum(1 for l in mu.instants(inp) if l)
        if live >= 2 and (tie_info[ii][0] > 0 or tie_info[ii][1] > 0):
            nontriv.add(json.dumps([mu.instants(inp), inp["opts"]]))
    for inp in inputs[n_gen:]:
        nontriv.add(json.dumps(inp["paths"]))
    hist_src, hist_kind = {}, {}
    for inp in gen_inputs:
        hist_src[len(inp["sources"])] = hist_src.get(len(inp["sources"]), 0) + 1
        for s in inp["sources"]:
            hist_kind[s["kind"] + "/" + s["container"]] = hist_kind.get(s["kind"] + "/" + s["container"], 0) + 1
    fix_hist = {}
    for inp in inputs[n_gen:]:
        fix_hist[inp["family"]] = fix_hist.get(inp["family"], 0) + 1
    ctx.coverage.update(
        evaluations=len(results), distinct_nontrivial=len(nontriv),
        rule="inputs = corpus/C01 (hand-picked ties) + generated: 1..%d text sources (ISO timestamps with 6-9 fractional digits, one notation per file, and numeric UTC offsets; instants in NANOSECONDS drawn from tie-heavy increments {0,1us,2us,999us,1ms,~1s,60s} plus sub-microsecond increments {0,1,10,100,900,990,999 ns}; offsets per line or per file from {+00:00,+01:00,-05:30,+05:45,-08:00,+14:00,-12:00}; 0-2 continuation lines; plain/gz/xz; 12%% generated utmp accounting-record sources (384-byte records with distinct times, physical order shuffled so that the physically last record is usually not the newest; compared by message order only); 15%% non-chronological sources; sources emptied by -a/-b; sources without any timestamp; argument order = random permutation of name order, 30%% re-run with another permutation, 10%% passed as a directory) + sub-microsecond inputs (2-8 sources with 7/8/9 fractional digits, several anchors inside one millisecond, every source has a message inside the same microsecond, mostly with the LATER-named source holding the EARLIER message 1 ns / 10 ns / 999 ns apart, mixed with exact ties) + fixture inputs (2-6 utmp / evtx / journal files of /repo/logs in several compressed variants, i.e. identical instants in several sources; instants read back from s4's -u -d '%%s%%.9f' prefix); each input x %d planned schedules. distinct_nontrivial counts DISTINCT generated inputs (by instants and options) with >= 2 non-empty sources and at least one cross- or intra-source tie, plus distinct fixture file lists" % (max_src, n_plans),
        samples=[dict(mu.describe(inputs[i]), expected_order_head=(exp[i][1][:12] if exp[i] else None)) for i in (0, n_corpus + 1, n_gen - 1, len(inputs) - 1)],
        inputs=len(inputs), corpus_inputs=n_corpus, fixture_inputs=len(inputs) - n_gen, fixture_family_histogram=fix_hist,
        plans_per_input=n_plans, traces_validated_against_impl=len(tr_cases) - len(tbad),
        trace_disagreements=len(tbad), spec_order_disagreements=spec_dis, stdout_byte_only_differences=bytes_only,
        sources_histogram=hist_src, source_kind_histogram=hist_kind,
        inputs_with_cross_source_ties=sum(1 for c, i in tie_info if c), inputs_with_intra_source_ties=sum(1 for c, i in tie_info if i),
        inputs_with_emptied_sources=sum(1 for inp in gen_inputs if inp["window"]),
        inputs_as_directory=sum(1 for inp in gen_inputs if inp["as_dir"]),
        inputs_with_directory_and_file_arguments=sum(1 for inp in gen_inputs if inp.get("arg_groups")),
        inputs_with_utmp_source_last_record_not_newest=sum(1 for inp in gen_inputs if mu.describe(inp)["physically_last_record_not_newest"]),
        sub_microsecond_inputs=sum(1 for inp in gen_inputs if inp.get("subus")),
        inputs_with_sub_microsecond_inversions=sum(1 for inp in gen_inputs if mu.subus_inversions(inp) > 0),
        sub_microsecond_inversion_pairs=sum(mu.subus_inversions(inp) for inp in gen_inputs),
        inputs_with_nanosecond_instants=sum(1 for inp in gen_inputs if any(x % 1000 for l in mu.instants(inp) for x in l)),
        messages_total=sum(len(l) for ii in set(meta) for l in results[meta.index(ii)]["srcs"]),
        max_run_wall_s=round(max(r["wall"] for r in results), 3))
    ctx.coverage.update(prog_cov)
    ctx.assumptions += [
        "the generator's instant of a timestamp text (civil time minus offset) is what the text denotes (cross-checked against s4's own -u -d '%s%.9f' rendering in the option sets that include it; C04 is the property about this)",
        "stdout lines are attributed to sources by the token sNNmPPPP the generator writes into every message and, with -n/-p, by the prepended name; for utmp/evtx/journal fixtures by the prepended path, and their instants are the ones s4 prints (-u -d '%s%.9f'), i.e. the check there is that the print order is the merge of the instants s4 itself reports",
        "crossbeam-channel is FIFO per channel, send blocks only when full, select returns some ready channel (oracle contract of Model/Coord.v)",
        "PathId = argument position (all generated files are valid sources); for a directory argument PathId = sorted name order",
        "planned delays (S4_VERIF_PLAN) steer but do not enumerate the OS schedule; the theorems quantify over all schedules",
        "whole-invocation stage: the timestamp oracle `dated` of Program.program_spec / program_m is the generator's table (first line of every message -> its instant; continuation lines contain no two consecutive digits, so no pattern dates them); the prepended name has as many characters as display columns (ASCII); year-bearing notation only (process_missing_year is outside the composed model); a case in which stage 1 of the MODEL rejects a file at the run's block size is not compared (C12 findings F3a-c), its count is in the evidence; mixed kinds: the enumeration of an evtx / journal fixture is what s4 prints for that file alone (instants and texts; this validates the composition - merge, window, decoration, totals - not the order inside such a file, which is C10 / C09), a journal entry's receive time is taken equal to its printed instant (windows lie days away from the fixture's entries), events outside the window carry an empty text in the Coq case (they are never printed), the record layouts are the frozen reference layouts of checks/c08_ref_layouts.json, window bounds are whole microseconds (accounting-record and journal filters compare at microsecond granularity)",
    ]
    return ctx.finish()


def replay(ctx, path):
    return mu.replay_failures(PROP, path)
