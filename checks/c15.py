"""C15 — directories and stdin path lists expand to the same run as explicit files (PARTIAL:
filesystem and jwalk are oracles).

A. Coq: Props/C15.v — walk sorted component-wise; lookup from the root on path STRINGS (lookup_walk),
   processed(DIR) = processed(explicit strings) (dir_equiv_explicit), ".." / canonical locations,
   stdin at the byte level (stdin_lines_join, stdin_equiv_bytes, CRLF, invalid UTF-8), the run-level
   equivalence (run_equiv over program_spec), explicit files always attempted.
B.  process_path(path, unparseable_are_text) (in-process, harness c15) on real temporary trees vs
    the Coq model process_path_m on the description of the same tree (absolute root + components).
Bs. process_path(typed string) with the working directory at the tree's root — strings with '.',
    '..', '//', trailing '/', links in the middle, missing entries, fifos/sockets — vs process_path_s.
Bi. the path list the s4 binary iterates over (argv with '-', arbitrary bytes on stdin: CRLF, no final
    newline, empty lines, blanks, invalid UTF-8), read off its "path does not exist" lines, vs args_of.
C. the property itself on the s4 binary, on files whose timestamps TIE across files so that the
   order of the processed list shows in the output:
     s4 DIR  ==  s4 <every regular file beneath DIR whose name is not a known non-log type, links
                     followed, in component-wise sorted order>
             ==  s4 <DIR typed with '//', './', trailing '/'>
             ==  printf paths | s4 -   ==  every split of that list between argv and stdin
             ==  the list with CRLF line ends, with empty lines in between, very long lists;
     a stdin line with blanks is taken verbatim (names another path);
     s4 <file with a non-log name>  prints the file (always attempted).
"""
import bz2, gzip, io, json, lzma, os, re, stat, tarfile
from concurrent.futures import ThreadPoolExecutor
import vlib
from vlib import CACHE

PROP_FILE = "Props/C15.v"
ENV = {"TZ": "UTC"}
ESCAPE = 999999     # Corr/C15.v: the model says the string leaves the modelled tree

K_LINK = "symlink_name_and_target_name_select_different_readers"
K_HIDDEN = "hidden_entry_beneath_directory"
K_CR = "stdin_path_ends_with_cr"
K_LOOP = "symlink_text_equals_walk_ancestor_path"


def hx(b):
    return bytes(b).hex()


# names: (bytes name, kind)   kind: text | gz | bz2 | xz | nonlog | tar
TEXT_NAMES = ["a.log", "b.log.1", "messages", "syslog", "x y.log", "日本.log", "é.txt", "kern.log.old", "UPPER.LOG",
              "sub!x.log", "sub.log", "sub-1.log", "sub 2.log", "z.log", "0.log", "data", "notes.txt", "app.log.2024", "m.text",
              "-x.log", "a..b.log", " lead.log", "trail.log ", "tab\tx.log"]
NONLOG_NAMES = ["pic.png", "lib.so", "tool.exe", "snd.mp3", "x y.jpg", "日本.gif", "prog.py", "run.sh", "page.html"]
DIR_NAMES = ["sub", "d", "e f", "日本", "z", "a", "logs", "sub2", "D", "d.d", "d..", "-"]
HIDDEN_FILES = [".hidden.log", ".a", ".日本.log", "..log"]
HIDDEN_DIRS = [".hid", ".git", "..."]
COMP = {"gz": gzip.compress, "bz2": bz2.compress, "xz": lzma.compress}


def log_content(fid, rng, n=None):
    n = n or rng.choice([2, 3, 4])
    return b"".join(b"2024-01-01 00:00:%02d file %s line %d\n" % (i % 60, fid.encode(), i) for i in range(n))


class Gen:
    def __init__(self, rng, base, hidden=False, crname=False):
        self.rng, self.base, self.k = rng, base, 0
        self.hidden, self.crname = hidden, crname
        self.pool_files = []    # (components below R, name kind, fid)
        self.pool_dirs = []     # (components, node)

    def fid(self):
        self.k += 1
        return "F%03d" % self.k

    def file_node(self, comps, name, kind):
        """create a regular file; returns node dict"""
        p = os.path.join(self.base, *comps, name)
        fid = self.fid()
        members = []
        if kind == "tar":
            bio = io.BytesIO()
            with tarfile.open(fileobj=bio, mode="w", format=self.rng.choice([tarfile.USTAR_FORMAT, tarfile.GNU_FORMAT, tarfile.PAX_FORMAT])) as tf:
                for j in range(self.rng.randrange(1, 4)):
                    mname = self.rng.choice(["m%d.log" % j, "d/m%d.log" % j, "e f/m%d.txt" % j, "p%d.png" % j, "c%d.log.gz" % j, "empty%d.log" % j, "in%d.tar" % j])
                    body = b"" if mname.startswith("empty") else log_content(fid + "m%d" % j, self.rng)
                    ti = tarfile.TarInfo(mname)
                    ti.size = len(body)
                    tf.addfile(ti, io.BytesIO(body))
                    members.append((mname.encode(), len(body), True))
                if self.rng.random() < 0.3:
                    ti = tarfile.TarInfo("tdir")
                    ti.type = tarfile.DIRTYPE
                    tf.addfile(ti)
                    members.append((b"tdir", 0, False))
            data = bio.getvalue()
        else:
            body = log_content(fid, self.rng)
            data = COMP[kind](body) if kind in COMP else body
        with open(p, "wb") as f:
            f.write(data)
        return dict(t="F", name=name, kind=kind, fid=fid, members=members)

    def rand_file(self, comps, used, allow_nonlog=True):
        r = self.rng.random()
        if r < 0.55:
            name, kind = self.rng.choice(TEXT_NAMES), "text"
        elif r < 0.72:
            kind = self.rng.choice(["gz", "bz2", "xz"])
            name = self.rng.choice(["c.log", "w x.log", "old.log.3", "日本.log"]) + "." + kind
        elif r < 0.9 and allow_nonlog:
            name, kind = self.rng.choice(NONLOG_NAMES), "nonlog"
        elif r < 0.96:
            name, kind = self.rng.choice(["arch.tar", "b k.tar"]), "tar"
        else:
            name, kind = self.rng.choice(TEXT_NAMES), "text"
        if self.hidden and self.rng.random() < 0.2:
            name, kind = self.rng.choice(HIDDEN_FILES), "text"
        if self.crname and self.rng.random() < 0.25:
            name, kind = self.rng.choice(["cr.log\r", "x\r"]), "text"
        if name in used:
            return None
        used.add(name)
        return self.file_node(comps, name, kind)

    def special_node(self, comps, used):
        name = self.rng.choice(["fifo.log", "pipe", "sock.log", "s ock"])
        if name in used:
            return None
        used.add(name)
        p = os.path.join(self.base, *comps, name)
        if "fifo" in name or name == "pipe":
            os.mkfifo(p)
        else:
            os.mknod(p, stat.S_IFSOCK | 0o644)     # a socket inode (bind() would need a short path)
        return dict(t="S", name=name)

    def dir_node(self, comps, depth, links):
        os.makedirs(os.path.join(self.base, *comps), exist_ok=True)
        used, children = set(), []
        for _ in range(self.rng.randrange(0, 6 if depth else 7)):
            r = self.rng.random()
            if r < 0.22 and depth < 3:
                name = self.rng.choice(DIR_NAMES)
                if self.hidden and self.rng.random() < 0.2:
                    name = self.rng.choice(HIDDEN_DIRS)
                if name in used:
                    continue
                used.add(name)
                children.append(self.dir_node(comps + [name], depth + 1, links))
            elif r < 0.40 and links and (self.pool_files or self.pool_dirs):
                ln = self.link_node(comps, used)
                if ln:
                    children.append(ln)
            elif r < 0.45:
                sp = self.special_node(comps, used)
                if sp:
                    children.append(sp)
            else:
                f = self.rand_file(comps, used)
                if f:
                    children.append(f)
        self.rng.shuffle(children)
        return dict(t="D", name=comps[-1] if comps else "", children=children)

    def link_node(self, comps, used):
        r = self.rng.random()
        if r < 0.12:
            name = self.rng.choice(["dangling.log", "gone"])
            if name in used:
                return None
            used.add(name)
            os.symlink("no-such-target", os.path.join(self.base, *comps, name))
            return dict(t="O", name=name)
        if r < 0.35 and self.pool_dirs:
            tcomps, tnode = self.rng.choice(self.pool_dirs)
            name = self.rng.choice(["ldir", "sub", "zz link"])
            if name in used:
                return None
            used.add(name)
            self.symlink(tcomps, comps, name)
            return dict(t="L", name=name, cpath=list(tcomps), target=tnode)
        if not self.pool_files:
            return None
        tcomps, tnode = self.rng.choice(self.pool_files)
        same = self.rng.random() < 0.6
        if same:   # a link name of the same kind as the target's name
            name = {"text": self.rng.choice(["lnk.log", "l k.txt"]), "nonlog": "lnk.png", "tar": "lnk.tar"}.get(tnode["kind"], "lnk.log." + tnode["kind"])
        else:
            name = self.rng.choice(["odd.log", "odd.log.gz", "odd.png", "odd.log.xz"])
        if name in used:
            return None
        used.add(name)
        self.symlink(tcomps, comps, name)
        return dict(t="L", name=name, cpath=list(tcomps), target=tnode)

    def symlink(self, tcomps, comps, name):
        """absolute or relative link text (never equal to the path of an ancestor directory)"""
        dst = os.path.join(self.base, *comps, name)
        if self.rng.random() < 0.5:
            os.symlink(os.path.join(self.base, *tcomps), dst)
        else:
            os.symlink(os.path.join(*([".."] * len(comps)), *tcomps), dst)


def name_kind(name):
    """kind a file NAME selects, for the names this generator uses"""
    low = name.lower()
    for k in ("gz", "bz2", "xz"):
        if low.endswith("." + k):
            return k
    if low.endswith(".tar"):
        return "tar"
    if any(low.endswith("." + n.rsplit(".", 1)[1]) for n in NONLOG_NAMES):
        return "nonlog"
    return "text"


def link_reader_differs(link_name, target_name):
    """known-finding class: a symlink to a regular file whose OWN name selects another reader than the
    name of its target (explicit paths are classified from the canonical path, walked entries from the
    entry name; a non-log name counts as text for an explicit path)"""
    def eff(k):
        return "text" if k == "nonlog" else k
    return eff(name_kind(link_name)) != eff(name_kind(target_name))


def is_hidden_name(name):
    """known-finding class predicate on one component: jwalk's skip_hidden"""
    return name.startswith(".")


def build_universe(rng, base, hidden=False, crname=False):
    g = Gen(rng, base, hidden, crname)
    os.makedirs(os.path.join(base, "pool"), exist_ok=True)
    # pool: link targets, no links inside
    pool = g.dir_node(["pool"], 1, links=False)

    def collect(node, comps):
        for c in node["children"]:
            if c["t"] == "F":
                g.pool_files.append((comps + [c["name"]], c))
            elif c["t"] == "D":
                g.pool_dirs.append((comps + [c["name"]], c))
                collect(c, comps + [c["name"]])
    collect(pool, ["pool"])
    top = g.dir_node(["top"], 0, links=True)
    return dict(t="D", name="", children=[pool, top])


def coq_tree(node):
    if node["t"] == "F":
        return "SF [%s]" % "; ".join('("%s", %d%%N, %s)' % (hx(m[0]), m[1], "true" if m[2] else "false") for m in node["members"])
    if node["t"] == "D":
        return "SD [%s]" % "; ".join('("%s", %s)' % (hx(c["name"].encode()), coq_tree(c)) for c in node["children"])
    if node["t"] == "L":
        return 'SL [%s] (%s)' % ("; ".join('"%s"' % hx(c.encode()) for c in node["cpath"]), coq_tree(node["target"]))
    if node["t"] == "S":
        return "SS"
    return "SO"


def resolve(node):
    while node["t"] == "L":
        node = node["target"]
    return node


def spec_walk(node, comps, hidden=False):
    """independent statement of 'every regular file beneath it, links followed, sorted path order':
    (components, file node, entry name, link node or None, has a hidden component) in component-wise byte order"""
    out = []
    for c in sorted(resolve(node)["children"], key=lambda c: c["name"].encode()):
        r = resolve(c)
        h = hidden or is_hidden_name(c["name"])
        if r["t"] == "D":
            out += spec_walk(c, comps + [c["name"]], h)
        elif r["t"] == "F":
            out.append((comps + [c["name"]], r, c["name"], c if c["t"] == "L" else None, h))
    return out


def all_dirs(node, comps):
    out = [(comps, node)]
    for c in resolve(node)["children"]:
        if resolve(c)["t"] == "D":
            out += all_dirs(c, comps + [c["name"]])
    return out


def all_entries(node, comps):
    """every entry beneath (links to directories followed): (components, node)"""
    out = []
    for c in resolve(node)["children"]:
        out.append((comps + [c["name"]], c))
        if resolve(c)["t"] == "D":
            out += all_entries(c, comps + [c["name"]])
    return out


def s4(args, inp=None, cwd=None):
    return vlib.run_s4(["--color", "never"] + args, timeout=120, env=ENV, inp=inp, cwd=cwd)


def parse_impl(line):
    out = []
    for t in line.split():
        k, h, c = t.split(":")
        out.append(({"V": 1, "E": 2, "S": 3, "A": 4, "X": 5, "R": 6}.get(k, 8), h, int(c)))
    return out


# ---------------------------------------------------------------- odd spellings of a path
def odd_string(rng, comps, root_node):
    """a spelling of the relative path comps[0]/comps[1]/... with '.', '..', '//' and a trailing '/'"""
    parts = []
    if rng.random() < 0.3:
        parts.append(".")
    node = root_node
    for i, c in enumerate(comps):
        parts.append(c)
        child = None
        if node is not None and resolve(node)["t"] == "D":
            child = next((x for x in resolve(node)["children"] if x["name"] == c), None)
        node = child
        last = i == len(comps) - 1
        r = rng.random()
        if r < 0.15:
            parts.append("")                       # '//'
        elif r < 0.3:
            parts.append(".")                      # '/./'
        elif r < 0.45 and node is not None and resolve(node)["t"] == "D" and i >= 1:
            # 'dir/..' then the component again: through a symlink this lands in the TARGET's parent
            parts.append("..")
            if node["t"] == "L":
                if len(node["cpath"]) >= 2:
                    parts.append(node["cpath"][-1])      # the target's own name, in the target's parent
                else:
                    parts.pop()
            else:
                parts.append(c)
    s = "/".join(parts)
    r = rng.random()
    if r < 0.15:
        s += "/"
    elif r < 0.25:
        s += "/."
    elif r < 0.3:
        s += "//"
    return s


RUST_ESC = re.compile(r'\\(u\{([0-9a-fA-F]+)\}|.)')


def rust_unescape(s):
    def f(m):
        if m.group(2):
            return chr(int(m.group(2), 16))
        return {"n": "\n", "r": "\r", "t": "\t", "0": "\0", "\\": "\\", '"': '"', "'": "'"}.get(m.group(1), m.group(1))
    return RUST_ESC.sub(f, s)


NOEXIST = re.compile(r'^ERROR: path does not exist "(.*)"$')


def path_list_from_stderr(err):
    """the paths main() iterated over, when none of them exists: one message each, in order"""
    out = []
    for l in err.decode("utf-8", "replace").split("\n"):
        m = NOEXIST.match(l)
        if m:
            out.append(rust_unescape(m.group(1)))
    return out


def valid_utf8(b):
    try:
        b.decode("utf-8")
        return True
    except UnicodeDecodeError:
        return False


def spec_lines(data):
    """what 'paths on stdin, one per line' means (the Coq spec stdin_lines, restated): split at '\\n', a
    last line without '\\n' counts when not empty, one '\\r' before '\\n' is dropped, stop at invalid UTF-8"""
    out = []
    chunks = data.split(b"\n")
    term = [True] * (len(chunks) - 1) + [False]
    for c, t in zip(chunks, term):
        if not t and c == b"":
            break
        try:
            c.decode("utf-8")
        except UnicodeDecodeError:
            break
        if t and c.endswith(b"\r"):
            c = c[:-1]
        out.append(c)
    return out


def run(ctx):
    quick = ctx.quick()
    rng = ctx.rng
    vlib.proof_stage(ctx, PROP_FILE, ["classify"], extra_targets=["Corr/C15.vo"])
    ok, log = vlib.build_harness("c15")
    if not ok:
        ctx.obligation_broken("build", "harness c15", log)
        return ctx.finish()
    ok, log = vlib.build_s4()
    if not ok:
        ctx.obligation_broken("build", "s4", log)
        return ctx.finish()
    scratch = vlib.scratch_dir("C15")
    ntrees = 150 if quick else 2000
    universes = []
    for i in range(ntrees):
        base = os.path.join(scratch, "u%03d" % i)
        os.makedirs(base)
        universes.append((base, build_universe(rng, base, hidden=(i % 12 == 5), crname=(i % 12 == 9))))
    hdr = vlib.COQ_PRINT_HDR + "From Coq Require Import String List NArith.\nImport ListNotations.\nFrom S4.Corr Require Import C15.\nOpen Scope string_scope.\n"

    def eval_cases(tag, n, mk_text, fn, what):
        """shard n cases, evaluate `fn cases` in Coq, return [(case index, value)] or None"""
        idx = list(range(n))
        shards = [sh for sh in vlib.shard(idx, vlib.NCPU) if sh]
        texts = [hdr + mk_text(sh) + "Eval vm_compute in (%s cases).\n" % fn for sh in shards]
        res = vlib.coq_eval_shards(os.path.join(CACHE, "cases", "C15", tag), texts)
        out = []
        for sh, (rc, o) in zip(shards, res):
            pairs = vlib.parse_eval_pairs(o) if rc == 0 else None
            if pairs is None:
                ctx.obligation_broken("correspondence", "model evaluation (coqc on C15 %s cases)" % what, o)
                return None
            out += [(sh[k], v) for k, v in pairs]
        return out

    # ---------------------------------------------------------------- B (components) and Bs (strings)
    reqs = []   # (universe index, components, uat)
    sreqs = []  # (universe index, typed string, uat)
    for ui, (base, root) in enumerate(universes):
        top = [c for c in root["children"] if c["name"] == "top"][0]
        dirs = all_dirs(top, ["top"])
        files = spec_walk(top, ["top"])
        cand = [["top"]] + [d[0] for d in rng.sample(dirs, min(3, len(dirs)))] + [f[0] for f in rng.sample(files, min(5, len(files)))]
        cand += [["top", "no such entry"], ["pool"]]
        # links, broken links and special files by their own path
        def links(node, comps):
            out = []
            for c in resolve(node)["children"]:
                if c["t"] in ("L", "O", "S"):
                    out.append(comps + [c["name"]])
                if resolve(c)["t"] == "D" and c["t"] == "D":
                    out += links(c, comps + [c["name"]])
            return out
        ls = links(top, ["top"])
        cand += rng.sample(ls, min(4, len(ls)))
        for comps in cand:
            reqs.append((ui, comps, rng.random() < 0.7))
        # typed strings, relative to the universe's root
        ents = all_entries(top, ["top"])
        scand = [["top"]] + [e[0] for e in rng.sample(ents, min(6, len(ents)))] + [l for l in rng.sample(ls, min(2, len(ls)))]
        strs = [odd_string(rng, comps, root) for comps in scand]
        strs += [rng.choice(["", ".", "./", "top/", "top//", "./top/.", "top/nosuch/..", "top/no such", "pool/../top", "top/../top/."])]
        if files:
            f = rng.choice(files)[0]
            strs.append("/".join(f) + rng.choice(["/", "/.", "/..", "/x", "//"]))     # ENOTDIR
        if ents:
            e = rng.choice(ents)[0]
            strs.append("/".join(e[:-1] + ["..", e[-2] if len(e) >= 2 else "top", e[-1]]) if len(e) >= 2 else "/".join(e))
        for s in strs:
            sreqs.append((ui, s, rng.random() < 0.7))
    lines = ["%s\t%d" % (hx(os.path.join(universes[ui][0], *comps).encode()), 1 if uat else 0) for ui, comps, uat in reqs]
    lines += ["%s\t%d\t%s" % (hx(s.encode()), 1 if uat else 0, hx(universes[ui][0].encode())) for ui, s, uat in sreqs]
    outl, err = vlib.harness("c15", lines)
    model_dis, model_dis_s, escapes = [], [], 0
    if outl is None or len(outl) != len(lines):
        ctx.obligation_broken("correspondence", "harness c15 run", err)
    else:
        souts = outl[len(reqs):]

        def text_b(sh):
            us = sorted(set(reqs[i][0] for i in sh))
            defs = "".join("Definition u%d : stree := %s.\n" % (u, coq_tree(universes[u][1])) for u in us)
            rows = []
            for i in sh:
                ui, comps, uat = reqs[i]
                impl = parse_impl(outl[i]) if outl[i] not in ("PANIC", "CHDIR-FAILED") else [(8, "", 0)]
                rows.append('("%s", u%d, %s, [%s], [%s])' % (hx(universes[ui][0].encode()), ui, "true" if uat else "false",
                            "; ".join('"%s"' % hx(c.encode()) for c in comps),
                            "; ".join('(%d%%N, "%s", %d%%N)' % r for r in impl)))
            return defs + "Definition cases : list case_t := [\n%s\n].\n" % ";\n".join(rows)
        r = eval_cases("model", len(reqs), text_b, "model_bad", "component")
        if r is not None:
            model_dis = r
            for i, v in model_dis[:1]:
                ui, comps, uat = reqs[i]
                ctx.obligation_broken("correspondence", "process_path vs Model.Walk.process_path_m",
                                      json.dumps(dict(path=os.path.join(universes[ui][0], *comps), unparseable_are_text=uat, impl=outl[i][:1500],
                                                      model_result_count=v, tree=coq_tree(universes[ui][1])[:3000], disagreements=len(model_dis))))

        def text_s(sh):
            us = sorted(set(sreqs[i][0] for i in sh))
            defs = "".join("Definition u%d : stree := %s.\n" % (u, coq_tree(universes[u][1])) for u in us)
            rows = []
            for i in sh:
                ui, s, uat = sreqs[i]
                impl = parse_impl(souts[i]) if souts[i] not in ("PANIC", "CHDIR-FAILED") else [(8, "", 0)]
                rows.append('(u%d, %s, "%s", [%s])' % (ui, "true" if uat else "false", hx(s.encode()),
                            "; ".join('(%d%%N, "%s", %d%%N)' % r for r in impl)))
            return defs + "Definition cases : list case_s := [\n%s\n].\n" % ";\n".join(rows)
        r = eval_cases("models", len(sreqs), text_s, "model_bad_s", "string")
        if r is not None:
            escapes = sum(1 for i, v in r if v == ESCAPE)
            model_dis_s = [(i, v) for i, v in r if v != ESCAPE]
            for i, v in model_dis_s[:1]:
                ui, s, uat = sreqs[i]
                ctx.obligation_broken("correspondence", "process_path on a typed string vs Model.Walk.process_path_s (lookup_str, rjoin, walk_base)",
                                      json.dumps(dict(cwd=universes[ui][0], typed=s, unparseable_are_text=uat, impl=souts[i][:1500],
                                                      model_result_count=v, tree=coq_tree(universes[ui][1])[:3000], disagreements=len(model_dis_s))))
            if escapes * 10 > len(sreqs):
                ctx.obligation_broken("correspondence", "too many typed strings leave the modelled tree", "%d of %d" % (escapes, len(sreqs)))

    # ---------------------------------------------------------------- Bi: argv + stdin bytes -> path list
    empty = os.path.join(scratch, "empty")
    os.makedirs(empty)
    ALPH = [b"a", b"b", b"xy", b" ", b"\t", b"\r", b"\n", b"\n", b"\r\n", b"-", b"\xc3\xa9", b"\xe6\x97\xa5", b"q.log", b"\\", b"\"", b"'"]
    icases = []
    for k in range(160 if quick else 2000):
        n = rng.randrange(0, 14)
        data = b"".join(rng.choice(ALPH) for _ in range(n))
        r = rng.random()
        if r < 0.12:
            pos = rng.randrange(0, len(data) + 1)
            data = data[:pos] + rng.choice([b"\xff", b"\xc3", b"\xe6\x97", b"\xc0\xaf", b"\xed\xa0\x80"]) + data[pos:]
        elif r < 0.2:
            data += rng.choice([b"\n", b"\r\n", b"\r", b"\n\n"])
        argv = []
        for _ in range(rng.randrange(0, 3)):
            argv.append(rng.choice(["p1", "p 2", "é3", "-", "q-"]))
        argv.insert(rng.randrange(0, len(argv) + 1), "-")
        icases.append((argv, data))
    with ThreadPoolExecutor(max_workers=vlib.NCPU) as ex:
        iouts = list(ex.map(lambda c: s4(c[0], inp=c[1], cwd=empty), icases))
    stdin_dis = []
    bad_run = [i for i, o in enumerate(iouts) if o[0] == 124 or o[1] != b""]
    if bad_run:
        i = bad_run[0]
        ctx.obligation_broken("correspondence", "s4 run for the stdin path list", json.dumps(dict(argv=icases[i][0], stdin_hex=hx(icases[i][1]), rc=iouts[i][0])))
    else:
        impl_lists = [path_list_from_stderr(o[2]) for o in iouts]

        def text_i(sh):
            rows = []
            for i in sh:
                argv, data = icases[i]
                rows.append('([%s], "%s", [%s])' % ("; ".join('"%s"' % hx(a.encode()) for a in argv), hx(data),
                                                   "; ".join('"%s"' % hx(p.encode()) for p in impl_lists[i])))
            return "Definition cases : list case_i := [\n%s\n].\n" % ";\n".join(rows)
        r = eval_cases("stdin", len(icases), text_i, "model_bad_i", "stdin")
        if r is not None:
            stdin_dis = r
            for i, v in stdin_dis[:1]:
                ctx.obligation_broken("correspondence", "path list of s4 (argv with '-', bytes on stdin) vs Model.Walk.args_of",
                                      json.dumps(dict(argv=icases[i][0], stdin_hex=hx(icases[i][1]), impl_paths=impl_lists[i], model_path_count=v,
                                                      disagreements=len(stdin_dis))))

    # ---------------------------------------------------------------- C
    runs = []    # (args, stdin, cwd)
    plan = []    # per comparison group
    long_done = False
    for ui, (base, root) in enumerate(universes):
        top = [c for c in root["children"] if c["name"] == "top"][0]
        dirs = all_dirs(top, ["top"])
        for comps, dnode in [dirs[0]] + rng.sample(dirs[1:], min(1 if quick else 3, len(dirs) - 1)):
            files = spec_walk(dnode, comps)
            listed = [f for f in files if name_kind(f[2]) != "nonlog"]
            rel = rng.random() < 0.5
            def P(c):
                return os.path.join(*c) if rel else os.path.join(base, *c)
            paths = [P(f[0]) for f in listed]
            paths_model = [P(f[0]) for f in listed if not f[4]]       # what the code is known to do: hidden entries skipped
            cwd = base if rel else None
            cls = []
            if any(f[3] is not None and link_reader_differs(f[2], f[3]["cpath"][-1]) for f in listed):
                cls.append(K_LINK)
            g = dict(ui=ui, dir=P(comps), paths=paths, paths_model=paths_model, cls=cls, cwd=cwd, runs={}, stdin_spec={})
            def add(tag, args, inp=None, spec=None):
                g["runs"][tag] = len(runs)
                runs.append((args, inp, cwd))
                if spec is not None:
                    g["stdin_spec"][tag] = spec
            add("dir", [P(comps)])
            d0 = P(comps)
            odd = rng.choice([d0 + "/", d0 + "//", d0 + "/.", "./" + d0 if rel else d0 + "/./", d0.replace("/", "//", 1) if "/" in d0 else d0 + "/"])
            add("dir_odd", [odd])
            kids = resolve(dnode)["children"]
            real_sub = [c["name"] for c in kids if c["t"] == "D"]
            if real_sub and rng.random() < 0.5:
                add("dir_odd2", [d0 + "/" + rng.choice(real_sub) + "/.."])          # a real sub-directory and back
            # through a symlink to a directory ".." is the parent of the TARGET: DIR/link/../<target's name> names the target
            lk = [c for c in kids if c["t"] == "L" and resolve(c)["t"] == "D" and len(c["cpath"]) >= 2]
            if lk:
                c = rng.choice(lk)
                add("dotdot_link", [d0 + "/" + c["name"] + "/../" + c["cpath"][-1]])
                add("dotdot_link_spec", [P(c["cpath"])])
            if paths:
                add("explicit", paths)
                if paths_model != paths:
                    add("explicit_model", paths_model) if paths_model else None
                add("stdin", ["-"], ("\n".join(paths) + "\n").encode())
                k = rng.randrange(0, len(paths) + 1)
                j = rng.randrange(k, len(paths) + 1)
                add("split", paths[:k] + ["-"] + paths[j:], ("\n".join(paths[k:j]) + ("\n" if j > k else "")).encode())
                add("split_nonl", paths[:1] + ["-"], "\n".join(paths[1:]).encode())     # no final newline
                add("dash_twice", ["-"] + paths[len(paths) // 2:] + ["-"], ("\n".join(paths[:len(paths) // 2]) + "\n").encode() if len(paths) // 2 else b"")
                add("crlf", ["-"], ("\r\n".join(paths) + "\r\n").encode())
                add("empty_lines", ["-"], ("\n" + "\n\n".join(paths) + "\n\n").encode())
                # a line with blanks is another path: the spec run names the lines verbatim
                bl = list(paths)
                bi = rng.randrange(len(bl))
                bl[bi] = rng.choice([" " + bl[bi], bl[bi] + " ", bl[bi] + "\t", "\t" + bl[bi]])
                add("blanks", ["-"], ("\n".join(bl) + "\n").encode(), spec=bl)
                add("blanks_spec", bl)
                if not long_done and len(paths) >= 2:
                    long_done = True
                    ll = (paths * (400 // len(paths) + 1))[:400]
                    add("long", ["-"], ("\n".join(ll)).encode(), spec=ll)
                    add("long_spec", ll)
            plan.append(g)
        # '..' after a symlink to a directory, wherever the tree has one
        dl = [(c, n) for c, n in all_entries(top, ["top"]) if n["t"] == "L" and resolve(n)["t"] == "D" and len(n["cpath"]) >= 2]
        for lcomps, n in rng.sample(dl, min(2, len(dl))):
            rel = rng.random() < 0.5
            pre = "" if rel else base + "/"
            g = dict(ui=ui, pair=True, cwd=base if rel else None, runs={},
                     spelled=pre + "/".join(lcomps) + "/../" + n["cpath"][-1], plain=pre + "/".join(n["cpath"]))
            for tag in ("spelled", "plain"):
                g["runs"][tag] = len(runs)
                runs.append(([g[tag]], None, g["cwd"]))
            plan.append(g)
        # explicit non-log names are attempted
        files = spec_walk(top, ["top"])
        for f in [f for f in files if name_kind(f[2]) == "nonlog" and f[3] is None][:2]:
            g = dict(ui=ui, single=os.path.join(base, *f[0]), runs={})
            g["runs"]["single"] = len(runs)
            runs.append(([g["single"]], None, None))
            plan.append(g)
    # the recorded jwalk defect, exhibited once per run: a symlink whose TEXT is the typed path of an ancestor
    lbase = os.path.join(scratch, "loopcase")
    os.makedirs(os.path.join(lbase, "top", "sub", "top"))
    for p, fid in (("top/a.log", "LA"), ("top/sub/s.log", "LS"), ("top/sub/top/t.log", "LT")):
        open(os.path.join(lbase, p), "wb").write(log_content(fid, rng, 2))
    os.symlink("top", os.path.join(lbase, "top", "sub", "zlink"))      # top/sub/zlink -> top/sub/top ; text "top" = the walk root as typed
    loop_paths = ["top/a.log", "top/sub/s.log", "top/sub/top/t.log", "top/sub/zlink/t.log"]
    gl = dict(ui=None, dir="top", paths=loop_paths, paths_model=loop_paths[:3], cls=[], cwd=lbase, runs={}, stdin_spec={}, loopcase=True)
    for tag, args in (("dir", ["top"]), ("explicit", loop_paths), ("explicit_model", loop_paths[:3])):
        gl["runs"][tag] = len(runs)
        runs.append((args, None, lbase))
    plan.append(gl)

    with ThreadPoolExecutor(max_workers=vlib.NCPU) as ex:
        outs = list(ex.map(lambda r: s4(r[0], inp=r[1], cwd=r[2]), runs))
    comparisons = nontrivial = fails = stdin_fail = attempted = 0
    tie_groups = 0
    stdin_variants = {}
    dotdot_cmp = {}
    for g in plan:
        if "single" in g:
            o = outs[g["runs"]["single"]]
            want = open(g["single"], "rb").read()
            attempted += 1
            comparisons += 1
            if o[1] != want:
                fails += 1
                ctx.failure(dict(kind="explicit file with a non-log name", path=g["single"], content_hex=hx(want)), "stdout = the file's %d bytes" % len(want),
                            "stdout %d bytes rc %d stderr %s" % (len(o[1]), o[0], o[2][:200].decode("utf-8", "replace")))
            continue
        if "pair" in g:
            o, w = outs[g["runs"]["spelled"]], outs[g["runs"]["plain"]]
            comparisons += 1
            dotdot_cmp["dotdot_link"] = dotdot_cmp.get("dotdot_link", 0) + 1
            if o[1] != w[1]:
                fails += 1
                ctx.failure(dict(kind="directory spelled differently", dir=g["plain"], spelled=g["spelled"], cwd=g["cwd"], tree=coq_tree(universes[g["ui"]][1])[:6000],
                                 what="'..' after a symlink to a directory is the parent of the link's target"),
                            "stdout of `s4 %s` (%d bytes)" % (g["plain"], len(w[1])), "stdout %d bytes" % len(o[1]))
            continue
        d = outs[g["runs"]["dir"]]
        tree = coq_tree(universes[g["ui"]][1])[:6000] if g["ui"] is not None else "top/{a.log, sub/{s.log, top/{t.log}, zlink -> 'top'}}"
        if "dir_odd" in g["runs"]:
            o = outs[g["runs"]["dir_odd"]]
            comparisons += 1
            if o[1] != d[1]:
                fails += 1
                ctx.failure(dict(kind="directory spelled differently", dir=g["dir"], spelled=runs[g["runs"]["dir_odd"]][0][0], cwd=g["cwd"], tree=tree),
                            "stdout of `s4 %s` (%d bytes)" % (g["dir"], len(d[1])), "stdout %d bytes" % len(o[1]))
        for tag, want_tag, what in (("dir_odd2", "dir", "directory spelled differently"), ("dotdot_link", "dotdot_link_spec", "'..' after a symlink to a directory")):
            if tag in g["runs"]:
                o, w = outs[g["runs"][tag]], outs[g["runs"][want_tag]]
                comparisons += 1
                dotdot_cmp[tag] = dotdot_cmp.get(tag, 0) + 1
                if o[1] != w[1]:
                    fails += 1
                    ctx.failure(dict(kind="directory spelled differently", dir=runs[g["runs"][want_tag]][0][0], spelled=runs[g["runs"][tag]][0][0], cwd=g["cwd"], tree=tree, what=what),
                                "stdout of `s4 %s` (%d bytes)" % (runs[g["runs"][want_tag]][0][0], len(w[1])), "stdout %d bytes" % len(o[1]))
        if not g["paths"]:
            comparisons += 1
            if d[1] != b"":
                fails += 1
                ctx.failure(dict(kind="dir with no listed file", dir=g["dir"], tree=tree), "empty stdout", hx(d[1][:300]))
            continue
        e = outs[g["runs"]["explicit"]]
        for tag in ("stdin", "split", "split_nonl", "dash_twice", "crlf", "empty_lines", "blanks", "long"):
            if tag not in g["runs"]:
                continue
            o = outs[g["runs"][tag]]
            r = runs[g["runs"][tag]]
            want = outs[g["runs"][tag + "_spec"]] if tag + "_spec" in g["runs"] else e
            comparisons += 1
            stdin_variants[tag] = stdin_variants.get(tag, 0) + 1
            if o[1] != want[1]:
                fails += 1
                stdin_fail += 1
                # known: a listed path that ends in '\r' loses it when '\n' follows
                cls = []
                lines_in = (r[1] or b"").split(b"\n")
                if any(l.endswith(b"\r") and not (tag == "crlf") for l in lines_in[:-1]) or \
                   (tag == "crlf" and any(l.endswith(b"\r\r") for l in lines_in[:-1])):
                    cls = [K_CR]
                ctx.failure(dict(kind="stdin split", variant=tag, args=r[0], stdin_hex=hx(r[1] or b""), cwd=r[2],
                                 explicit_args=g["stdin_spec"].get(tag, g["paths"])),
                            "stdout of the explicit argument list (%d bytes)" % len(want[1]), "stdout %d bytes" % len(o[1]), cls)
        comparisons += 1
        if len(g["paths"]) >= 2 and e[1]:
            nontrivial += 1
            tie_groups += 1
        if d[1] != e[1]:
            fails += 1
            cls = list(g["cls"])
            # the recorded deviations, and only them: hidden entries are skipped (and, in the fixed case, the "loop" link)
            if g["paths_model"] != g["paths"]:
                em = outs[g["runs"]["explicit_model"]][1] if "explicit_model" in g["runs"] else b""
                if d[1] == em or K_LINK in cls:
                    cls.append(K_LOOP if g.get("loopcase") else K_HIDDEN)
            ctx.failure(dict(kind="directory vs explicit list", dir=g["dir"], explicit_args=g["paths"], cwd=g["cwd"], tree=tree),
                        "stdout of `s4 <explicit list>` (%d bytes): %s" % (len(e[1]), e[1][:300].decode("utf-8", "replace")),
                        "stdout of `s4 DIR` (%d bytes): %s" % (len(d[1]), d[1][:300].decode("utf-8", "replace")),
                        [c for c in cls if c != K_LOOP or g.get("loopcase")])

    hist = {}
    def count(node):
        for c in node.get("children", []):
            k = c["t"] + (":" + c["kind"] if c["t"] == "F" else "")
            if is_hidden_name(c["name"]):
                k += ":hidden"
            hist[k] = hist.get(k, 0) + 1
            if c["t"] == "D":
                count(c)
    for base, root in universes:
        count(root)
    sfeat = {}
    for _, s, _ in sreqs:
        for k, f in (("dotdot", "/.." in s or s.startswith("..")), ("dot", "/./" in s or s.startswith("./") or s.endswith("/.")), ("double_slash", "//" in s),
                     ("trailing_slash", s.endswith("/")), ("plain", not any(x in s for x in ("//", "/.", "./")) and not s.endswith("/"))):
            if f:
                sfeat[k] = sfeat.get(k, 0) + 1
    ctx.coverage.update(
        evaluations=len(reqs) + len(sreqs) + len(icases) + comparisons,
        distinct_nontrivial=len(set((r[0], tuple(r[1])) for r in reqs if len(r[1]) >= 1)) + len(set((r[0], r[1]) for r in sreqs if "/" in r[1]))
                            + len(set((tuple(c[0]), c[1]) for c in icases if b"\n" in c[1])) + nontrivial,
        rule="B: one evaluation = process_path on one path (a directory, a sub-directory, a file, a symlink, a broken link, a fifo/socket, a missing path) of a generated tree vs the Coq model on the tree's description; Bs: the same on a typed relative path STRING (non-trivial: it has more than one component); Bi: one evaluation = the path list of one s4 invocation (argv with '-', random bytes on stdin) vs the Coq args_of (non-trivial: stdin holds a newline); C: one comparison = stdout of two invocations of the s4 binary on the same tree (DIR vs explicit sorted list; DIR vs DIR spelled with '//', './', trailing '/'; explicit list vs stdin / argv+stdin splits / CRLF / empty lines / blanks / a 400-line list); non-trivial = the explicit list has >= 2 files and prints something (every file carries the same timestamps, so the order of the processed list decides the output); distinct by (tree, path)",
        samples=[dict(tree=coq_tree(universes[0][1])[:600]), dict(typed_strings=[s for _, s, _ in sreqs[:12]]),
                 dict(stdin_case=dict(argv=icases[0][0], stdin_hex=hx(icases[0][1])))],
        trees=len(universes), process_path_requests=len(reqs), model_disagreements=len(model_dis),
        typed_string_requests=len(sreqs), typed_string_disagreements=len(model_dis_s), typed_strings_outside_model=escapes, typed_string_features=sfeat,
        stdin_path_list_cases=len(icases), stdin_path_list_disagreements=len(stdin_dis),
        stdin_cases_with_invalid_utf8=sum(1 for c in icases if not valid_utf8(c[1])),
        stdin_cases_with_cr=sum(1 for c in icases if b"\r" in c[1]), stdin_cases_without_final_newline=sum(1 for c in icases if c[1] and not c[1].endswith(b"\n")),
        stdout_runs=len(runs), stdout_comparisons=comparisons, stdout_failures=fails, stdin_split_failures=stdin_fail, stdin_variants=stdin_variants,
        dotdot_comparisons=dotdot_cmp, explicit_nonlog_attempted=attempted, groups_with_ties=tie_groups, node_histogram=hist)
    ctx.assumptions += [
        "the filesystem and jwalk are oracles: the tree description (symlinks pre-resolved, canonical target location) is what stat/readdir/readlink/canonicalize answer; symlink loops and concurrent modification are not generated; the check runs as root, so permission errors (EACCES on a directory without read permission) cannot be exercised here",
        "jwalk's sort(true) orders the children of a directory by file name as bytes (model: insertion sort by bytes_ltb), skip_hidden (its default) drops entries whose name starts with '.'; sampled by B and Bs",
        "typed strings are modelled relative to the working directory = the root of the modelled tree (Bs runs process_path after chdir there); absolute strings are covered at the component level (B) and by the stdout comparisons (C)",
        "the output of a run is a function of the FileValid records of the processed list in order (C01/C06: program_spec); error records only produce stderr lines",
        "paths are valid UTF-8 (argv and stdin lines are Strings; clap rejects other argv); stdout compared with --color never, TZ=UTC, no -n/-p (no file names printed)",
        "Bi reads the path list off the 'path does not exist' messages (one per path, in PathId order) in an empty directory, un-escaping Rust's {:?}",
    ]
    return ctx.finish()


def replay(ctx, path):
    r = json.load(open(path))
    vlib.build_s4()
    bad = 0
    for f in r.get("failures", []):
        c = f["case"]
        if c.get("kind") == "directory vs explicit list" and os.path.exists(c["dir"] if os.path.isabs(c["dir"]) else os.path.join(c.get("cwd") or ".", c["dir"])):
            a = s4([c["dir"]], cwd=c.get("cwd"))
            b = s4(c["explicit_args"], cwd=c.get("cwd"))
            print("replay DIR=%s: dir %d bytes, explicit %d bytes, equal=%s" % (c["dir"], len(a[1]), len(b[1]), a[1] == b[1]))
            bad += a[1] != b[1]
        elif c.get("kind") == "directory spelled differently" and os.path.exists(c["dir"] if os.path.isabs(c["dir"]) else os.path.join(c.get("cwd") or ".", c["dir"])):
            a = s4([c["dir"]], cwd=c.get("cwd"))
            b = s4([c["spelled"]], cwd=c.get("cwd"))
            print("replay DIR=%s spelled %s: %d vs %d bytes equal=%s" % (c["dir"], c["spelled"], len(a[1]), len(b[1]), a[1] == b[1]))
            bad += a[1] != b[1]
        elif c.get("kind") == "stdin split" and c.get("explicit_args"):
            a = s4(c["args"], inp=bytes.fromhex(c["stdin_hex"]), cwd=c.get("cwd"))
            b = s4(c["explicit_args"], cwd=c.get("cwd"))
            print("replay split %s: %d vs %d bytes equal=%s" % (c["variant"], len(a[1]), len(b[1]), a[1] == b[1]))
            bad += a[1] != b[1]
        else:
            print("replay: tree of the failing run is gone; re-run ./check C15 with VERIF_SEED=%s" % r.get("seed"))
            bad += 1
    if bad:
        print("VIOLATION property=C15 replay=%s" % path)
        return 1
    return 0
