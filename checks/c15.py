"""C15 — directories and stdin path lists expand to the same run as explicit files (PARTIAL:
filesystem and jwalk are oracles).

A. Coq: Props/C15.v — walk sorted component-wise, processed(DIR) = processed(explicit list) modulo
   walked-only exclusions (entry level), stdin splice, explicit files always attempted.
B. process_path(path, unparseable_are_text) (in-process, harness c15) on real temporary trees vs
   the Coq model process_path_m on the description of the same tree (Corr/C15.v).
C. the property itself on the s4 binary, on files whose timestamps TIE across files so that the
   order of the processed list shows in the output:
     s4 DIR  ==  s4 <every regular file beneath DIR whose name is not a known non-log type, links
                     followed, in component-wise sorted order>
             ==  printf paths | s4 -   ==  every split of that list between argv and stdin;
     s4 <file with a non-log name>  prints the file (always attempted).
"""
import bz2, gzip, io, json, lzma, os, tarfile
from concurrent.futures import ThreadPoolExecutor
import vlib
from vlib import CACHE

PROP_FILE = "Props/C15.v"
ENV = {"TZ": "UTC"}


def hx(b):
    return bytes(b).hex()


# names: (bytes name, kind)   kind: text | gz | bz2 | xz | nonlog | tar
TEXT_NAMES = ["a.log", "b.log.1", "messages", "syslog", "x y.log", "日本.log", "é.txt", "kern.log.old", "UPPER.LOG",
              "sub!x.log", "sub.log", "sub-1.log", "sub 2.log", "z.log", "0.log", "data", "notes.txt", "app.log.2024", "m.text"]
NONLOG_NAMES = ["pic.png", "lib.so", "tool.exe", "snd.mp3", "x y.jpg", "日本.gif", "prog.py", "run.sh", "page.html"]
DIR_NAMES = ["sub", "d", "e f", "日本", "z", "a", "logs", "sub2", "D"]
COMP = {"gz": gzip.compress, "bz2": bz2.compress, "xz": lzma.compress}


def log_content(fid, rng, n=None):
    n = n or rng.choice([2, 3, 4])
    return b"".join(b"2024-01-01 00:00:%02d file %s line %d\n" % (i % 60, fid.encode(), i) for i in range(n))


class Gen:
    def __init__(self, rng, base):
        self.rng, self.base, self.k = rng, base, 0
        self.pool_files = []    # (components below R, name kind, fid)
        self.pool_dirs = []     # (components, node)

    def fid(self):
        self.k += 1
        return "F%03d" % self.k

    def file_node(self, comps, name, kind):
        """create a regular file; returns node dict"""
        p = os.path.join(self.base, *comps, name)
        fid = self.fid()
        members = []
        if kind == "tar":
            bio = io.BytesIO()
            with tarfile.open(fileobj=bio, mode="w", format=self.rng.choice([tarfile.USTAR_FORMAT, tarfile.GNU_FORMAT, tarfile.PAX_FORMAT])) as tf:
                for j in range(self.rng.randrange(1, 4)):
                    mname = self.rng.choice(["m%d.log" % j, "d/m%d.log" % j, "e f/m%d.txt" % j, "p%d.png" % j, "c%d.log.gz" % j, "empty%d.log" % j, "in%d.tar" % j])
                    body = b"" if mname.startswith("empty") else log_content(fid + "m%d" % j, self.rng)
                    ti = tarfile.TarInfo(mname)
                    ti.size = len(body)
                    tf.addfile(ti, io.BytesIO(body))
                    members.append((mname.encode(), len(body), True))
                if self.rng.random() < 0.3:
                    ti = tarfile.TarInfo("tdir")
                    ti.type = tarfile.DIRTYPE
                    tf.addfile(ti)
                    members.append((b"tdir", 0, False))
            data = bio.getvalue()
        else:
            body = log_content(fid, self.rng)
            data = COMP[kind](body) if kind in COMP else body
        with open(p, "wb") as f:
            f.write(data)
        return dict(t="F", name=name, kind=kind, fid=fid, members=members)

    def rand_file(self, comps, used, allow_nonlog=True):
        r = self.rng.random()
        if r < 0.55:
            name, kind = self.rng.choice(TEXT_NAMES), "text"
        elif r < 0.72:
            kind = self.rng.choice(["gz", "bz2", "xz"])
            name = self.rng.choice(["c.log", "w x.log", "old.log.3", "日本.log"]) + "." + kind
        elif r < 0.9 and allow_nonlog:
            name, kind = self.rng.choice(NONLOG_NAMES), "nonlog"
        elif r < 0.96:
            name, kind = self.rng.choice(["arch.tar", "b k.tar"]), "tar"
        else:
            name, kind = self.rng.choice(TEXT_NAMES), "text"
        if name in used:
            return None
        used.add(name)
        return self.file_node(comps, name, kind)

    def dir_node(self, comps, depth, links):
        os.makedirs(os.path.join(self.base, *comps), exist_ok=True)
        used, children = set(), []
        for _ in range(self.rng.randrange(0, 6 if depth else 7)):
            r = self.rng.random()
            if r < 0.22 and depth < 3:
                name = self.rng.choice(DIR_NAMES)
                if name in used:
                    continue
                used.add(name)
                children.append(self.dir_node(comps + [name], depth + 1, links))
            elif r < 0.40 and links and (self.pool_files or self.pool_dirs):
                ln = self.link_node(comps, used)
                if ln:
                    children.append(ln)
            else:
                f = self.rand_file(comps, used)
                if f:
                    children.append(f)
        self.rng.shuffle(children)
        return dict(t="D", name=comps[-1] if comps else "", children=children)

    def link_node(self, comps, used):
        r = self.rng.random()
        if r < 0.12:
            name = self.rng.choice(["dangling.log", "gone"])
            if name in used:
                return None
            used.add(name)
            os.symlink("no-such-target", os.path.join(self.base, *comps, name))
            return dict(t="O", name=name)
        if r < 0.35 and self.pool_dirs:
            tcomps, tnode = self.rng.choice(self.pool_dirs)
            name = self.rng.choice(["ldir", "sub", "zz link"])
            if name in used:
                return None
            used.add(name)
            os.symlink(os.path.join(self.base, *tcomps), os.path.join(self.base, *comps, name))
            return dict(t="L", name=name, cname=tcomps[-1], target=tnode)
        if not self.pool_files:
            return None
        tcomps, tnode = self.rng.choice(self.pool_files)
        same = self.rng.random() < 0.6
        if same:   # a link name of the same kind as the target's name
            name = {"text": self.rng.choice(["lnk.log", "l k.txt"]), "nonlog": "lnk.png", "tar": "lnk.tar"}.get(tnode["kind"], "lnk.log." + tnode["kind"])
        else:
            name = self.rng.choice(["odd.log", "odd.log.gz", "odd.png", "odd.log.xz"])
        if name in used:
            return None
        used.add(name)
        os.symlink(os.path.join(self.base, *tcomps), os.path.join(self.base, *comps, name))
        return dict(t="L", name=name, cname=tcomps[-1], target=tnode)


def name_kind(name):
    """kind a file NAME selects, for the names this generator uses"""
    low = name.lower()
    for k in ("gz", "bz2", "xz"):
        if low.endswith("." + k):
            return k
    if low.endswith(".tar"):
        return "tar"
    if any(low.endswith("." + n.rsplit(".", 1)[1]) for n in NONLOG_NAMES):
        return "nonlog"
    return "text"


def link_reader_differs(link_name, target_name):
    """known-finding class: a symlink to a regular file whose OWN name selects another reader than the
    name of its target (explicit paths are classified from the canonical path, walked entries from the
    entry name; a non-log name counts as text for an explicit path)"""
    def eff(k):
        return "text" if k == "nonlog" else k
    return eff(name_kind(link_name)) != eff(name_kind(target_name))


def build_universe(rng, base):
    g = Gen(rng, base)
    os.makedirs(os.path.join(base, "pool"), exist_ok=True)
    # pool: link targets, no links inside
    pool = g.dir_node(["pool"], 1, links=False)

    def collect(node, comps):
        for c in node["children"]:
            if c["t"] == "F":
                g.pool_files.append((comps + [c["name"]], c))
            elif c["t"] == "D":
                g.pool_dirs.append((comps + [c["name"]], c))
                collect(c, comps + [c["name"]])
    collect(pool, ["pool"])
    top = g.dir_node(["top"], 0, links=True)
    return dict(t="D", name="", children=[pool, top])


def coq_tree(node):
    if node["t"] == "F":
        return "SF [%s]" % "; ".join('("%s", %d%%N, %s)' % (hx(m[0]), m[1], "true" if m[2] else "false") for m in node["members"])
    if node["t"] == "D":
        return "SD [%s]" % "; ".join('("%s", %s)' % (hx(c["name"].encode()), coq_tree(c)) for c in node["children"])
    if node["t"] == "L":
        return 'SL "%s" (%s)' % (hx(node["cname"].encode()), coq_tree(node["target"]))
    return "SO"


def resolve(node):
    while node["t"] == "L":
        node = node["target"]
    return node


def spec_walk(node, comps):
    """independent statement of 'every regular file beneath it, links followed, sorted path order':
    (components, file node, entry name, link node or None) in component-wise byte order"""
    out = []
    for c in sorted(resolve(node)["children"], key=lambda c: c["name"].encode()):
        r = resolve(c)
        if r["t"] == "D":
            out += spec_walk(c, comps + [c["name"]])
        elif r["t"] == "F":
            out.append((comps + [c["name"]], r, c["name"], c if c["t"] == "L" else None))
    return out


def all_dirs(node, comps):
    out = [(comps, node)]
    for c in resolve(node)["children"]:
        if resolve(c)["t"] == "D":
            out += all_dirs(c, comps + [c["name"]])
    return out


def s4(args, inp=None, cwd=None):
    return vlib.run_s4(["--color", "never"] + args, timeout=120, env=ENV, inp=inp, cwd=cwd)


def parse_impl(line):
    out = []
    for t in line.split():
        k, h, c = t.split(":")
        out.append(({"V": 1, "E": 2, "S": 3, "A": 4, "X": 5}.get(k, 8), h, int(c)))
    return out


def run(ctx):
    quick = ctx.quick()
    rng = ctx.rng
    vlib.proof_stage(ctx, PROP_FILE, ["classify"], extra_targets=["Corr/C15.vo"])
    ok, log = vlib.build_harness("c15")
    if not ok:
        ctx.obligation_broken("build", "harness c15", log)
        return ctx.finish()
    ok, log = vlib.build_s4()
    if not ok:
        ctx.obligation_broken("build", "s4", log)
        return ctx.finish()
    scratch = vlib.scratch_dir("C15")
    ntrees = 150 if quick else 2000
    universes = []
    for i in range(ntrees):
        base = os.path.join(scratch, "u%03d" % i)
        os.makedirs(base)
        universes.append((base, build_universe(rng, base)))

    # ---------------------------------------------------------------- B
    reqs = []   # (universe index, components, uat)
    for ui, (base, root) in enumerate(universes):
        top = [c for c in root["children"] if c["name"] == "top"][0]
        dirs = all_dirs(top, ["top"])
        files = spec_walk(top, ["top"])
        cand = [["top"]] + [d[0] for d in rng.sample(dirs, min(3, len(dirs)))] + [f[0] for f in rng.sample(files, min(5, len(files)))]
        cand += [["top", "no such entry"], ["pool"]]
        # links and broken links by their own path
        def links(node, comps):
            out = []
            for c in resolve(node)["children"]:
                if c["t"] in ("L", "O"):
                    out.append(comps + [c["name"]])
                if resolve(c)["t"] == "D" and c["t"] == "D":
                    out += links(c, comps + [c["name"]])
            return out
        ls = links(top, ["top"])
        cand += rng.sample(ls, min(4, len(ls)))
        for comps in cand:
            reqs.append((ui, comps, rng.random() < 0.7))
    lines = ["%s\t%d" % (hx(os.path.join(universes[ui][0], *comps).encode()), 1 if uat else 0) for ui, comps, uat in reqs]
    outl, err = vlib.harness("c15", lines)
    model_dis = []
    if outl is None or len(outl) != len(lines):
        ctx.obligation_broken("correspondence", "harness c15 run", err)
    else:
        hdr = vlib.COQ_PRINT_HDR + "From Coq Require Import String List NArith.\nImport ListNotations.\nFrom S4.Corr Require Import C15.\nOpen Scope string_scope.\n"
        idx = list(range(len(reqs)))
        shards = vlib.shard(idx, vlib.NCPU)
        texts = []
        for sh in shards:
            us = sorted(set(reqs[i][0] for i in sh))
            defs = "".join("Definition u%d : stree := %s.\n" % (u, coq_tree(universes[u][1])) for u in us)
            rows = []
            for i in sh:
                ui, comps, uat = reqs[i]
                impl = parse_impl(outl[i]) if outl[i] != "PANIC" else [(8, "", 0)]
                rows.append('("%s", u%d, %s, [%s], [%s])' % (hx(universes[ui][0].encode()), ui, "true" if uat else "false",
                            "; ".join('"%s"' % hx(c.encode()) for c in comps),
                            "; ".join('(%d%%N, "%s", %d%%N)' % r for r in impl)))
            texts.append(hdr + defs + "Definition cases : list case_t := [\n%s\n].\nEval vm_compute in (model_bad cases).\n" % ";\n".join(rows))
        res = vlib.coq_eval_shards(os.path.join(CACHE, "cases", "C15", "model"), texts)
        for sh, (rc, out) in zip(shards, res):
            pairs = vlib.parse_eval_pairs(out) if rc == 0 else None
            if pairs is None:
                ctx.obligation_broken("correspondence", "model evaluation (coqc on C15 cases)", out)
                break
            for k, v in pairs:
                model_dis.append((sh[k], v))
        for i, v in model_dis[:1]:
            ui, comps, uat = reqs[i]
            ctx.obligation_broken("correspondence", "process_path vs Model.Walk.process_path_m",
                                  json.dumps(dict(path=os.path.join(universes[ui][0], *comps), unparseable_are_text=uat, impl=outl[i][:1500],
                                                  model_result_count=v, tree=coq_tree(universes[ui][1])[:3000], disagreements=len(model_dis))))

    # ---------------------------------------------------------------- C
    runs = []    # (tag, args, stdin, cwd)
    plan = []    # per comparison group
    for ui, (base, root) in enumerate(universes):
        top = [c for c in root["children"] if c["name"] == "top"][0]
        dirs = all_dirs(top, ["top"])
        for comps, dnode in [dirs[0]] + rng.sample(dirs[1:], min(1 if quick else 3, len(dirs) - 1)):
            files = spec_walk(dnode, comps)
            listed = [f for f in files if name_kind(f[2]) != "nonlog"]
            rel = rng.random() < 0.5
            def P(c):
                return os.path.join(*c) if rel else os.path.join(base, *c)
            paths = [P(f[0]) for f in listed]
            cwd = base if rel else None
            cls = []
            if any(f[3] is not None and link_reader_differs(f[2], f[3]["cname"]) for f in listed):
                cls = ["symlink_name_and_target_name_select_different_readers"]
            g = dict(ui=ui, dir=P(comps), paths=paths, cls=cls, cwd=cwd, runs={})
            def add(tag, args, inp=None):
                g["runs"][tag] = len(runs)
                runs.append((args, inp, cwd))
            add("dir", [P(comps)])
            if paths:
                add("explicit", paths)
                add("stdin", ["-"], ("\n".join(paths) + "\n").encode())
                k = rng.randrange(0, len(paths) + 1)
                j = rng.randrange(k, len(paths) + 1)
                add("split", paths[:k] + ["-"] + paths[j:], ("\n".join(paths[k:j]) + ("\n" if j > k else "")).encode())
                add("split_nonl", paths[:1] + ["-"], "\n".join(paths[1:]).encode())     # no final newline
                add("dash_twice", ["-"] + paths[len(paths) // 2:] + ["-"], ("\n".join(paths[:len(paths) // 2]) + "\n").encode() if len(paths) // 2 else b"")
            plan.append(g)
        # explicit non-log names are attempted
        files = spec_walk(top, ["top"])
        for f in [f for f in files if name_kind(f[2]) == "nonlog" and f[3] is None][:2]:
            g = dict(ui=ui, single=os.path.join(base, *f[0]), runs={})
            g["runs"]["single"] = len(runs)
            runs.append(([g["single"]], None, None))
            plan.append(g)

    with ThreadPoolExecutor(max_workers=vlib.NCPU) as ex:
        outs = list(ex.map(lambda r: s4(r[0], inp=r[1], cwd=r[2]), runs))
    comparisons = nontrivial = fails = stdin_fail = attempted = 0
    tie_groups = 0
    for g in plan:
        if "single" in g:
            o = outs[g["runs"]["single"]]
            want = open(g["single"], "rb").read()
            attempted += 1
            comparisons += 1
            if o[1] != want:
                fails += 1
                ctx.failure(dict(kind="explicit file with a non-log name", path=g["single"], content_hex=hx(want)), "stdout = the file's %d bytes" % len(want),
                            "stdout %d bytes rc %d stderr %s" % (len(o[1]), o[0], o[2][:200].decode("utf-8", "replace")))
            continue
        d = outs[g["runs"]["dir"]]
        if not g["paths"]:
            comparisons += 1
            if d[1] != b"":
                fails += 1
                ctx.failure(dict(kind="dir with no listed file", dir=g["dir"], tree=coq_tree(universes[g["ui"]][1])[:4000]), "empty stdout", hx(d[1][:300]))
            continue
        e = outs[g["runs"]["explicit"]]
        for tag in ("stdin", "split", "split_nonl", "dash_twice"):
            o = outs[g["runs"][tag]]
            comparisons += 1
            if o[1] != e[1]:
                fails += 1
                stdin_fail += 1
                r = runs[g["runs"][tag]]
                ctx.failure(dict(kind="stdin split", variant=tag, args=r[0], stdin_hex=hx(r[1] or b""), cwd=r[2], explicit_args=g["paths"]),
                            "stdout of the explicit argument list (%d bytes)" % len(e[1]), "stdout %d bytes" % len(o[1]))
        comparisons += 1
        if len(g["paths"]) >= 2 and e[1]:
            nontrivial += 1
            tie_groups += 1
        if d[1] != e[1]:
            fails += 1
            ctx.failure(dict(kind="directory vs explicit list", dir=g["dir"], explicit_args=g["paths"], cwd=g["cwd"], tree=coq_tree(universes[g["ui"]][1])[:6000]),
                        "stdout of `s4 <explicit list>` (%d bytes): %s" % (len(e[1]), e[1][:300].decode("utf-8", "replace")),
                        "stdout of `s4 DIR` (%d bytes): %s" % (len(d[1]), d[1][:300].decode("utf-8", "replace")), g["cls"])

    hist = {}
    def count(node):
        for c in node.get("children", []):
            k = c["t"] + (":" + c["kind"] if c["t"] == "F" else "")
            hist[k] = hist.get(k, 0) + 1
            if c["t"] == "D":
                count(c)
    for base, root in universes:
        count(root)
    ctx.coverage.update(
        evaluations=len(reqs) + comparisons,
        distinct_nontrivial=len(set((r[0], tuple(r[1])) for r in reqs if len(r[1]) >= 1)) + nontrivial,
        rule="B: one evaluation = process_path on one path (a directory, a sub-directory, a file, a symlink, a broken link, a missing path) of a generated tree vs the Coq model on the tree's description; C: one comparison = stdout of two invocations of the s4 binary on the same tree (DIR vs explicit sorted list; explicit list vs stdin / argv+stdin splits); non-trivial = the explicit list has >= 2 files and prints something (every file carries the same timestamps, so the order of the processed list decides the output); distinct by (tree, path)",
        samples=[dict(tree=coq_tree(universes[0][1])[:600])],
        trees=len(universes), process_path_requests=len(reqs), model_disagreements=len(model_dis),
        stdout_runs=len(runs), stdout_comparisons=comparisons, stdout_failures=fails, stdin_split_failures=stdin_fail,
        explicit_nonlog_attempted=attempted, groups_with_ties=tie_groups, node_histogram=hist)
    ctx.assumptions += [
        "the filesystem and jwalk are oracles: the tree description (symlinks pre-resolved, canonical target name) is what stat/readdir/readlink/canonicalize answer; symlink loops, permission errors, special files and concurrent modification are not generated",
        "jwalk's sort(true) orders the children of a directory by file name as bytes (model: insertion sort by bytes_ltb); sampled by B",
        "the output of a run is a function of the FileValid records of the processed list in order (C01/C06); error records only produce stderr lines",
        "paths are valid UTF-8 without newline (argv and stdin lines are Strings); stdout compared with --color never, TZ=UTC, no -n/-p (no file names printed)",
    ]
    return ctx.finish()


def replay(ctx, path):
    r = json.load(open(path))
    vlib.build_s4()
    bad = 0
    for f in r.get("failures", []):
        c = f["case"]
        if c.get("kind") == "directory vs explicit list" and os.path.exists(c["dir"] if os.path.isabs(c["dir"]) else os.path.join(c.get("cwd") or ".", c["dir"])):
            a = s4([c["dir"]], cwd=c.get("cwd"))
            b = s4(c["explicit_args"], cwd=c.get("cwd"))
            print("replay DIR=%s: dir %d bytes, explicit %d bytes, equal=%s" % (c["dir"], len(a[1]), len(b[1]), a[1] == b[1]))
            bad += a[1] != b[1]
        elif c.get("kind") == "stdin split" and c.get("explicit_args"):
            a = s4(c["args"], inp=bytes.fromhex(c["stdin_hex"]), cwd=c.get("cwd"))
            b = s4(c["explicit_args"], cwd=c.get("cwd"))
            print("replay split %s: %d vs %d bytes equal=%s" % (c["variant"], len(a[1]), len(b[1]), a[1] == b[1]))
            bad += a[1] != b[1]
        else:
            print("replay: tree of the failing run is gone; re-run ./check C15 with VERIF_SEED=%s" % r.get("seed"))
            bad += 1
    if bad:
        print("VIOLATION property=C15 replay=%s" % path)
        return 1
    return 0
