"""C04, regex stage: the `regex` crate (harness c04r) vs the Coq matcher Model/Regex.v (vm_compute) on the
project's own 173 patterns — case generation, Coq case files, comparison.  Used by checks/c04.py."""
import json, os, re, sys, time
import vlib
from vlib import COQ, CACHE

HERE = os.path.dirname(os.path.abspath(__file__))
sys.path.insert(0, os.path.join(vlib.ROOT, "tools", "gen"))

HDR = (vlib.COQ_PRINT_HDR + "From Coq Require Import String List NArith.\nImport ListNotations.\n"
       "From S4.Model Require Import Regex.\nFrom S4.Corr Require Import C04r.\nOpen Scope N_scope.\nOpen Scope hex_scope.\n")


def parse_res(txt):
    """'-' -> None ; 's:e,_,s:e' -> [(s,e)|None,...]"""
    if txt == "-":
        return None
    out = []
    for p in txt.split(","):
        if p == "_":
            out.append(None)
        else:
            a, b = p.split(":")
            out.append((int(a), int(b)))
    return out


NROWS = [173]


def enc_res(row, r):
    """expectation bytes of one (row, line) pair: see Corr/C04r.v dec_pairs"""
    if r is None:
        return bytes([row, 255])
    out = bytearray([row, len(r)])
    for sp in r:
        if sp is None:
            out += b"\x00\x00\x00\x00"
        else:
            out += bytes([(sp[0] + 1) >> 8, (sp[0] + 1) & 255, (sp[1] + 1) >> 8, (sp[1] + 1) & 255])
    return bytes(out)


def crate_rows(jobs):
    """jobs: [(line bytes, rows list or None for all)] -> [ {row: result} ] or (None, err)"""
    lines = ["%s\t%s" % ("*" if rows is None else ",".join(str(r) for r in rows), line.hex()) for line, rows in jobs]
    outl, err = vlib.harness("c04r", lines, args=["rows"], timeout=1200)
    if outl is None or len(outl) != len(lines):
        return None, err or "harness c04r: %s lines for %d cases" % (None if outl is None else len(outl), len(lines))
    res = []
    for o in outl:
        d = {}
        for f in o.split("\t"):
            k, v = f.split("=", 1)
            d[int(k)] = parse_res(v)
        res.append(d)
    return res, ""


def rows_case_text(group):
    """group: [(line bytes, [(case id, row, result)])] -> .v source evaluating rx_bad; the disagreement ids the
    source prints are <line number in the group> * 1000 + <ordinal in the line's list>"""
    items = []
    for line, l in group:
        assert len(l) < 500
        if len(l) == NROWS[0]:
            # every row is listed: send only the matching ones, mode 1 = "all other rows: no match"
            body = b"\x01" + b"".join(enc_res(row, r) for _, row, r in l if r is not None)
        else:
            body = b"\x00" + b"".join(enc_res(row, r) for _, row, r in l)
        items.append('("%s", "%s")' % (line.hex(), body.hex()))
    return HDR + ("Definition cases : list (hexs * hexs) := [\n%s\n].\n"
                  "Eval vm_compute in (rx_bad cases).\n" % ";\n".join(items))


def eval_groups(tag, shards, timeout=900):
    """shards: list of groups; returns ([(case id, model code)], err)"""
    texts = [rows_case_text(s) for s in shards]
    res = vlib.coq_eval_shards(os.path.join(CACHE, "cases", "C04", tag), texts, timeout=timeout)
    bad = []
    for sh_, (rc, out) in zip(shards, res):
        pairs = vlib.parse_eval_pairs(out) if rc == 0 else None
        if pairs is None:
            return None, out[-1500:]
        for key, code in pairs:
            ln, k = divmod(key, 1000)
            l = sh_[ln][1]
            if k >= 500:
                # an unlisted row (mode 1): every row is in l, find its case id
                bad.append((([cid for cid, row, _ in l if row == k - 500] + [l[0][0]])[0], code))
            elif len(l) == NROWS[0]:
                bad.append(([x for x in l if x[2] is not None][k][0], code))
            else:
                bad.append((l[k][0], code))
    return bad, ""


def eval_texts(tag, texts, timeout=900):
    res = vlib.coq_eval_shards(os.path.join(CACHE, "cases", "C04", tag), texts, timeout=timeout)
    bad = []
    for k, (rc, out) in enumerate(res):
        pairs = vlib.parse_eval_pairs(out) if rc == 0 else None
        if pairs is None:
            return None, "shard %d: %s" % (k, out[-1500:])
        bad += pairs
    return bad, ""


def balance(groups, n):
    """split groups (each with a weight = number of (row,line) evaluations) into n shards of similar weight"""
    shards = [[] for _ in range(n)]
    w = [0] * n
    for g in sorted(groups, key=lambda g: -len(g[1])):
        k = w.index(min(w))
        shards[k].append(g)
        w[k] += len(g[1]) * (20 + len(g[0]))
    return [s for s in shards if s]


# ------------------------------------------------------------------ line pool
SEPS = b" :-/T.,_"
INJECT = [b"\xc5\xbf", b"\xe2\x84\xaa", b"\xe2\x88\x92", b"\xc3\xa9", b"\xff", b"\xc3", b"\xe2\x88", b"\xc2\xa0", b"\n", b"\t",
          b"\xf0\x9f\x98\x80", b"\xed\xa0\x80", b"\xc0\xaf", b"\x00", b"\x7f"]


def mutate(line, rng, end_hint=None):
    """one near-miss mutation of a line; returns (tag, bytes)"""
    b = bytearray(line)
    digs = [i for i, c in enumerate(b) if 48 <= c <= 57]
    seps = [i for i, c in enumerate(b) if c in SEPS]
    alph = [i for i, c in enumerate(b) if 65 <= c <= 90 or 97 <= c <= 122]
    kind = rng.choice(["drop_digit", "add_digit", "sep", "shift", "cut", "case", "inject", "fold", "edge", "digit_val", "dup_sep", "drop_sep"])
    if kind == "drop_digit" and digs:
        del b[rng.choice(digs)]
    elif kind == "add_digit" and digs:
        i = rng.choice(digs)
        b[i:i] = bytes([rng.choice(b"0123456789")])
    elif kind == "digit_val" and digs:
        b[rng.choice(digs)] = rng.choice(b"0123456789")
    elif kind == "sep" and seps:
        b[rng.choice(seps)] = rng.choice(SEPS + b"\t|;")
    elif kind == "dup_sep" and seps:
        i = rng.choice(seps)
        b[i:i] = bytes([b[i]])
    elif kind == "drop_sep" and seps:
        del b[rng.choice(seps)]
    elif kind == "shift":
        b[0:0] = rng.choice([b" ", b"  ", b"x", b"a ", b"[", b"\xc3\xa9", b"1", b"<", b"\t", b"Z:", b"\xff"])
    elif kind == "cut" and len(b) > 2:
        del b[rng.randrange(1, len(b)):]
    elif kind == "case" and alph:
        i = rng.choice(alph)
        b[i] ^= 0x20
    elif kind == "inject":
        i = rng.randrange(0, len(b) + 1)
        x = rng.choice(INJECT)
        if rng.random() < 0.5 and i < len(b):
            b[i:i + 1] = x
        else:
            b[i:i] = x
    elif kind == "fold":
        cand = [i for i, c in enumerate(b) if c in b"sSkK-"]
        if cand:
            i = rng.choice(cand)
            b[i:i + 1] = {ord("s"): b"\xc5\xbf", ord("S"): b"\xc5\xbf", ord("k"): b"\xe2\x84\xaa", ord("K"): b"\xe2\x84\xaa", ord("-"): b"\xe2\x88\x92"}[b[i]]
    elif kind == "edge" and end_hint:
        # push the text so that it straddles the end of the row's slice range
        rx_end, ts_end = end_hint
        want = rx_end + rng.choice([-3, -2, -1, 0, 1, 2])
        pad = want - ts_end
        if 0 < pad < 3000:
            b[0:0] = (b"x " * pad)[:pad]
    return kind, bytes(b)


def line_pool(tables, rng, quick, rendered):
    """[(tag, origin row or None, line bytes)]"""
    import regex_sample
    pool = []
    rows = tables["rows"]
    for r in rows:
        for tc in r["tests"]:
            raw = tc["text"].encode("utf-8")
            pool.append(("example", r["index"], raw))
            first = raw.split(b"\n")[0] + b"\n"
            if first != raw:
                pool.append(("example_line", r["index"], first))
    rl = list(rendered)
    rng.shuffle(rl)
    for row, line in rl[:(800 if quick else 8000)]:
        pool.append(("rendered", row, line.split(b"\n")[0] + b"\n"))
    sampled = failed = 0
    for r in rows:
        for _ in range(2 if quick else 12):
            try:
                s = regex_sample.sample(r["regex"], rng)
            except Exception:
                failed += 1
                continue
            sampled += 1
            pre = rng.choice(["", "", "x ", " ", "2024 "]) if not r["regex"].startswith("^") else ""
            pool.append(("sampled", r["index"], (pre + s + rng.choice(["", " tail", "\n", " 1\n"])).encode("utf-8")))
    base = list(pool)
    nmut = 1100 if quick else 12000
    for _ in range(nmut):
        tag, row, line = rng.choice(base)
        hint = None
        if row is not None:
            hint = (rows[row]["end"], len(line.split(b"\n")[0]))
        kind, m = mutate(line, rng, hint)
        if m != line and m:
            pool.append(("mut_" + kind, row, m))
    # distinct
    seen, out = set(), []
    for t in pool:
        if t[2] not in seen and len(t[2]) < 6000:
            seen.add(t[2])
            out.append(t)
    return out, dict(sampled=sampled, sample_failures=failed)


# ------------------------------------------------------------------ engine conformance patterns (every AST construct)
CONF_PATTERNS = [
    r"^((?i)a|b(?-i)|c)$", r"(?i)s[k]", r"((?i)ALERT[[[:digit:]]]|warn)x", r"[[:^alpha:]]x", r"(a|ab)(c|bcd)(d*)", r"a{1,3}b?",
    r"a{2,}?b", r"(a+?)(a*)", r"(a*?)(a+)b", r"x*y", r".x", r"[^a]b", r"^(?:a|b)+$", r"((?i)a)b", r"(a)|b|(c)", r"(a|b)*c",
    r"([[:blank:]]|$)", r"(^|[[:^alnum:]])(ab|a)(b?)", r"[\+\-−][012][[:digit:]]:?[[:digit:]]{2}", r"(?P<x>[[:digit:]]{1,9})[\.,](?P<y>[[:digit:]]{1,3})?",
    r"[a-c]{2,4}?d", r"(a{1,2}){2}", r"(ab?){1,3}c", r".+[[:blank:]](?P<w>[[:word:]]{1,20})", r"[[:punct:]][[:space:]][[:xdigit:]]+[[:upper:]][[:lower:]]",
    r"[[:cntrl:]]|[[:graph:]][[:print:]]", r"é+x", r"[é−]x|[^[[:alnum:]]\+\-]y", r"a??b", r"(a|)b", r"(b|a)+?b", r"(ab|a)(bc|c)?$",
    r"[ T\-:_]?(?P<h>00|01|1|2| 1)[:]?(?P<m>[012345][[:digit:]])", r"[[:ascii:]]{3}$", r"\\\.\|\t", r"(x)?(y)?z", r"((a)|(b))+",
]


def conformance_cases(rng, quick):
    import regexes, regex_sample
    jobs = []
    for p in CONF_PATTERNS:
        node, ncap, names = regexes.parse(p)
        node = regexes.simplify(node)
        texts = set()
        for _ in range(12 if quick else 60):
            try:
                s = regex_sample.sample(p, rng).encode("utf-8")
            except Exception:
                s = b"ab"
            texts.add(s)
            texts.add(rng.choice([b"", b"x", b" ", b"ab"]) + s + rng.choice([b"", b"\n", b"c", b"b"]))
            texts.add(mutate(s or b"a1 ", rng)[1])
        for extra in (b"", b"abcd", b"aaab", b"AbC", b"\xc5\xbfk", b"Alert5x", b"WARNx", b"\xc3\xa9\xc3\xa9x", b"\xffx", b"\nx", b"a\n", b"+01:30", b"\xe2\x88\x920130"):
            texts.add(extra)
        jobs.append((p, node, ncap, sorted(texts)))
    return jobs


def run_conformance(ctx, rng, quick):
    import regexes
    jobs = conformance_cases(rng, quick)
    lines, meta = [], []
    for p, node, ncap, texts in jobs:
        for t in texts:
            lines.append("%s\t%s" % (p.encode("utf-8").hex(), t.hex()))
            meta.append((p, t))
    outl, err = vlib.harness("c04r", lines, args=["pat"], timeout=600)
    if outl is None or len(outl) != len(lines) or any(o == "ERR" for o in outl):
        ctx.obligation_broken("correspondence", "harness c04r pat", err or "a conformance pattern does not compile")
        return dict(conformance_cases=0)
    defs, items, cid = [], [], 0
    k = 0
    ids = {}
    for j, (p, node, ncap, texts) in enumerate(jobs):
        em = regexes.Emit()
        em.prefix = "cp%d_" % j
        term = em.term(node)
        for name, text in em.defs:
            defs.append("Definition %s : re := %s." % (name, text))
        cs = []
        for t in texts:
            cs.append('("%s", "%s")' % (t.hex(), (b"\x00" + enc_res(0, parse_res(outl[k]))).hex()))
            ids[j * 100000 + len(cs) - 1] = cid
            cid += 1
            k += 1
        items.append("(%s, %d%%N, [%s])" % (term, ncap, "; ".join(cs)))
    text = HDR + "\n".join(defs) + ("\nDefinition cases : list (re * N * list (hexs * hexs)) := [\n%s\n].\n"
                                    "Eval vm_compute in (pat_bad cases).\n" % ";\n".join(items))
    bad, err = eval_texts("conf", [text])
    if bad is None:
        ctx.obligation_broken("correspondence", "conformance evaluation (coqc)", err)
        return dict(conformance_cases=cid)
    if bad:
        b = bad[0]
        p, t = meta[ids[b[0]]]
        ctx.obligation_broken("correspondence", "regex crate vs Model.Regex.search on a conformance pattern",
                              json.dumps(dict(pattern=p, text_hex=t.hex(), crate=outl[ids[b[0]]], model_code=b[1], disagreements=len(bad))))
    return dict(conformance_patterns=len(jobs), conformance_cases=cid, conformance_disagreements=len(bad))


# ------------------------------------------------------------------ the stage
def regex_stage(ctx, tables, rendered, quick):
    """B (regex): crate vs Coq matcher.  rendered: [(row, line bytes)] produced by the C generator."""
    rng = ctx.rng
    cov = {}
    cov.update(run_conformance(ctx, rng, quick))
    pool, pstat = line_pool(tables, rng, quick, rendered)
    t0 = time.time()
    res, err = crate_rows([(line, None) for _, _, line in pool])
    if res is None:
        ctx.obligation_broken("correspondence", "harness c04r rows", err)
        return cov
    ctx.note("regex crate: %d lines x all rows in %.1fs" % (len(pool), time.time() - t0))
    nrows = len(tables["rows"])
    NROWS[0] = nrows
    if nrows > 254:
        ctx.obligation_broken("correspondence", "case encoding", "more than 254 rows: one-byte row index")
        return cov
    budget_nomatch = 2 if quick else nrows
    groups, meta, cid = [], {}, 0
    n_match = 0
    rows_matched = set()
    tags = {}
    for (tag, origin, line), d in zip(pool, res):
        tags[tag.split("_")[0] if tag.startswith("mut_") else tag] = tags.get(tag.split("_")[0] if tag.startswith("mut_") else tag, 0) + 1
        matched = [r for r, v in d.items() if v is not None]
        chosen = set(matched)
        if origin is not None:
            chosen.add(origin)
        others = [r for r in d if r not in chosen]
        if budget_nomatch >= len(others):
            chosen.update(others)
        else:
            chosen.update(rng.sample(others, budget_nomatch))
        g = []
        for r in sorted(chosen):
            g.append((cid, r, d[r]))
            meta[cid] = (tag, line, r, d[r])
            cid += 1
            if d[r] is not None:
                n_match += 1
                rows_matched.add(r)
        groups.append((line, g))
    shards = balance(groups, vlib.NCPU)
    t0 = time.time()
    bad, err = eval_groups("rx", shards, timeout=1500)
    ctx.note("coq regex evaluation: %d (row, line) pairs in %.1fs" % (cid, time.time() - t0))
    if bad is None:
        ctx.obligation_broken("correspondence", "regex model evaluation (coqc on cases)", err)
        bad = []
    elif bad:
        b = bad[0]
        tag, line, r, exp = meta[b[0]]
        ctx.obligation_broken("correspondence", "regex crate captures (Regex::captures on the row's slice) vs Model.Regex.row_spans",
                              json.dumps(dict(row=r, line=line.decode("utf-8", "replace"), line_hex=line.hex(), origin=tag,
                                              crate=exp, model_code=b[1], disagreements=len(bad),
                                              rows_disagreeing=sorted(set(meta[x[0]][2] for x in bad))[:40])))
    cov.update(regex_lines=len(pool), regex_line_kinds=tags, regex_pairs_evaluated=cid, regex_pairs_matching=n_match,
               regex_rows_with_a_matching_pair=len(rows_matched), regex_disagreements=len(bad), **pstat)
    return cov


# ------------------------------------------------------------------ B (pipeline): bytes_to_regex_to_datetime / table-order
def pipeline_stage(ctx, blines, outl, quick):
    """blines: the harness c04 'parse' inputs (hex line TAB year|- TAB fallback seconds); outl: its outputs.
    Coq: Corr/C04r.dated_row (claimed row only) for every line, Corr/C04r.first_dated (every row in table
    order) for a sample."""
    rng = ctx.rng
    n = len(blines)
    idx = list(range(n))
    if len(idx) > 40000:
        idx = sorted(rng.sample(idx, 40000))
    full = set(rng.sample(idx, min(len(idx), 350 if quick else 4000)))
    items, ids = [], []
    for i in idx:
        o = outl[i]
        hexline, yo, off = blines[i].split("\t")
        if o != "NONE":
            p = o.split("\t")
            if p[1] == "PANIC":
                continue
            impl = "Some (%s, ((%s)%%Z, %s, %s))" % (p[0], p[1], p[2], p[3])
        else:
            if i not in full:
                continue
            impl = "None"
        items.append('("%s"%%hex, %s, (%s)%%Z, %s, %s)' % (hexline, "None" if yo == "-" else "Some (%s)%%Z" % yo, off, impl,
                                                         "true" if i in full else "false"))
        ids.append(i)
    hdr = (vlib.COQ_PRINT_HDR + "From Coq Require Import String List NArith ZArith.\nImport ListNotations.\n"
           "From S4.Model Require Import Regex.\nFrom S4.Corr Require Import C04r.\nOpen Scope N_scope.\n")
    # full cases are ~170x the cost of row-only cases: spread them evenly
    order = sorted(range(len(items)), key=lambda k: (ids[k] not in full, k))
    shards = [[] for _ in range(vlib.NCPU)]
    for j, k in enumerate(order):
        shards[j % vlib.NCPU].append(k)
    shards = [s for s in shards if s]
    texts = [hdr + "Definition cases : list (hexs * option Z * Z * option (N * (Z * N * N)) * bool) := [\n%s\n].\nEval vm_compute in (dt_bad cases).\n"
             % ";\n".join(items[k] for k in sh_) for sh_ in shards]
    t0 = time.time()
    res = vlib.coq_eval_shards(os.path.join(CACHE, "cases", "C04", "pipe"), texts, timeout=1500)
    ctx.note("coq pipeline evaluation: %d lines (%d through every row) in %.1fs" % (len(items), len(full), time.time() - t0))
    bad = []
    for sh_, (rc, out) in zip(shards, res):
        pairs = vlib.parse_eval_pairs(out) if rc == 0 else None
        if pairs is None:
            ctx.obligation_broken("correspondence", "pipeline model evaluation (coqc on cases)", out[-1500:])
            return dict(pipeline_cases=len(items))
        for k, code in pairs:
            bad.append((ids[sh_[k]], code))
    if bad:
        i, code = bad[0]
        ctx.obligation_broken("correspondence", "bytes_to_regex_to_datetime (table order) vs Model.RegexDt.dated_model / Corr.C04r.first_dated",
                              json.dumps(dict(line=bytes.fromhex(blines[i].split("\t")[0]).decode("utf-8", "replace"), input=blines[i],
                                              harness=outl[i], model="no row" if code == 0 else "row %d" % (code - 1), disagreements=len(bad))))
    return dict(pipeline_cases=len(items), pipeline_cases_through_every_row=len([i for i in ids if i in full]), pipeline_disagreements=len(bad))


# ------------------------------------------------------------------ measurement: generated lines inside the universal domain
def domain_stage(ctx, rendered, quick):
    """rendered: [(row, line bytes)]; counts the lines whose slice decomposes along the row's plan
    (Model/RegexDt.in_domain), i.e. lines the universal theorem speaks about"""
    rng = ctx.rng
    byrow = {}
    for row, line in rendered:
        byrow.setdefault(row, set()).add(line.split(b"\n")[0] + b"\n")
    per = 6 if quick else 60
    groups = []
    for row in sorted(byrow):
        ls = sorted(byrow[row])
        if len(ls) > per:
            ls = rng.sample(ls, per)
        groups.append((row, ls))
    hdr = (vlib.COQ_PRINT_HDR + "From Coq Require Import String List NArith.\nImport ListNotations.\n"
           "From S4.Model Require Import Regex.\nFrom S4.Corr Require Import C04r.\nOpen Scope N_scope.\n")
    shards = vlib.shard(groups, vlib.NCPU)
    texts = [hdr + "Definition cases : list (N * list hexs) := [\n%s\n].\nEval vm_compute in (domain_count cases).\n"
             % ";\n".join("(%d, [%s])" % (row, "; ".join('"%s"%%hex' % l.hex() for l in ls)) for row, ls in sh_) for sh_ in shards]
    t0 = time.time()
    res = vlib.coq_eval_shards(os.path.join(CACHE, "cases", "C04", "dom"), texts, timeout=1500)
    inside, total, rows_in = 0, 0, 0
    per_row = {}
    for sh_, (rc, out) in zip(shards, res):
        pairs = vlib.parse_eval_pairs(out) if rc == 0 else None
        if pairs is None:
            ctx.note("domain measurement failed: " + out[-300:])
            return {}
        for (row, ls), (r2, cnt) in zip(sh_, pairs):
            total += len(ls)
            inside += cnt
            per_row[row] = (cnt, len(ls))
            if cnt:
                rows_in += 1
    ctx.note("universal-domain measurement: %d of %d generated lines (%d of %d rows) in %.1fs" % (inside, total, rows_in, len(groups), time.time() - t0))
    return dict(universal_domain_lines_checked=total, universal_domain_lines_inside=inside,
                universal_domain_rows_with_a_line_inside=rows_in, universal_domain_rows_checked=len(groups),
                universal_domain_rows_without_a_line_inside=sorted(r for r, (c, n) in per_row.items() if c == 0))
