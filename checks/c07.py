"""C07 — malformed input cannot crash, hang, or disturb other sources.  (partial)

A. Coq: Props/C07.v — isolation (a failing source is observationally a shorter/empty source for
   `merge`; the other sources' messages keep their merge order) and panic-freedom / termination of
   the modelled cores (re-exported from the models of C01/C06, C02, C03, C08 ...).
B. tie: the coordinator model is tied to the code by C01/C06's trace conformance; here the binary's
   output for (valid sources + one damaged source) is compared with the Coq `merge` of the valid
   sources alone on the instants the run printed.
C. fault enumeration on the real binary (release-like, panic=abort as shipped): truncations at every
   offset class, single/multi-byte corruptions by offset class (magic, header, trailer, payload),
   random byte strings, valid content under every mismatching name — alone and beside 1-3 valid
   sources.  Verdict per run: exit status in {0,1}, no panic message, no fatal signal, ends within
   BOUND seconds, co-sources' output identical to their solo run.
"""
import bz2, gzip, io, json, lzma, os, shutil, tarfile, time
from concurrent.futures import ThreadPoolExecutor
import vlib

PROP_FILE = "Props/C07.v"
BOUND = 20.0
LOGS = os.path.join(vlib.REPO, "logs", "programs")


def text_log(n, start, tag):
    out = []
    for i in range(n):
        t = start + i * 7
        out.append("2022-05-%02dT%02d:%02d:%02d %s message %d with some padding text\n"
                   % (1 + (t // 86400) % 28, (t // 3600) % 24, (t // 60) % 60, t % 60, tag, i))
    return "".join(out).encode()


def read(p):
    with open(p, "rb") as f:
        return f.read()


def base_files():
    """(name suffix that selects the reader, valid bytes, kind)"""
    out = []
    txt = text_log(30, 5000, "victim")
    out.append((".log", txt, "text"))
    out.append((".log.gz", gzip.compress(txt, mtime=0), "gz"))
    out.append((".log.bz2", bz2.compress(txt), "bz2"))
    out.append((".log.xz", lzma.compress(txt), "xz"))
    bio = io.BytesIO()
    with tarfile.open(fileobj=bio, mode="w", format=tarfile.USTAR_FORMAT) as tf:
        ti = tarfile.TarInfo("victim.log")
        ti.size = len(txt)
        ti.mtime = 1650000000
        tf.addfile(ti, io.BytesIO(txt))
    out.append((".tar", bio.getvalue(), "tar"))
    fx = [("utmp/host-entry6.wtmp", ".wtmp", "utmp"), ("utmp/host-entry6.wtmp.gz", ".wtmp.gz", "utmp.gz"),
          ("utmp/host-entry6.wtmp.lz4", ".wtmp.lz4", "utmp.lz4"),
          ("evtx/Microsoft-Windows-Kernel-PnP%4Configuration.evtx", ".evtx", "evtx"),
          ("evtx/Microsoft-Windows-Kernel-PnP%4Configuration.evtx.gz", ".evtx.gz", "evtx.gz"),
          ("journal/Ubuntu22-user-1000x3.journal.gz", ".journal.gz", "journal.gz"),
          ("journal/Ubuntu22-user-1000x3.journal.lz4", ".journal.lz4", "journal.lz4")]
    for rel, sfx, kind in fx:
        p = os.path.join(LOGS, rel)
        if os.path.exists(p) and os.path.getsize(p) > 0:
            out.append((sfx, read(p), kind))
    jg = os.path.join(LOGS, "journal/Ubuntu22-user-1000x3.journal.gz")
    if os.path.exists(jg):
        out.append((".journal", gzip.decompress(read(jg)), "journal"))
    return out


def mutations(rng, data, quick):
    """yield (label, bytes)"""
    n = len(data)
    # truncations: every point for small files, classes for big ones
    pts = set([0, 1, 2, 3, 4, 5, 7, 8, 9, 10, 12, 16, 17, 18, 20, 24, 31, 32, 33, 63, 64, 65, 127, 128, 129, 255, 256, 511, 512, 513, 1023, 1024])
    pts |= set([n - k for k in (1, 2, 3, 4, 5, 7, 8, 9, 12, 16, 17, 32, 64, 512) if n - k > 0])
    pts |= set(rng.randrange(n) for _ in range(6 if quick else 60)) if n > 0 else set()
    if n <= (400 if quick else 4096):
        pts |= set(range(n))
    elif not quick:
        pts |= set(range(0, min(n, 2048)))
    for p in sorted(x for x in pts if 0 <= x < n):
        yield ("trunc@%d" % p, data[:p])
    # corruptions by offset class
    classes = [("magic", 0, min(8, n)), ("header", 8, min(64, n)), ("trailer", max(0, n - 16), n), ("payload", min(64, n), max(min(64, n), n - 16))]
    for cname, lo, hi in classes:
        if hi <= lo:
            continue
        for rep in range(3 if quick else 25):
            b = bytearray(data)
            k = rng.choice([1, 1, 2, 4, 16])
            for _ in range(k):
                i = rng.randrange(lo, hi)
                b[i] = rng.choice([0, 0xFF, b[i] ^ 0x01, b[i] ^ 0x80, rng.randrange(256)])
            yield ("corrupt-%s-%d" % (cname, rep), bytes(b))
    # a run of zeros / 0xFF over the header; doubled file; junk appended
    if n >= 32:
        yield ("zero-header", bytes(32) + data[32:])
        yield ("ff-header", b"\xff" * 32 + data[32:])
    yield ("doubled", data + data)
    yield ("junk-appended", data + bytes(rng.randrange(256) for _ in range(100)))


def field_extremes(kind, data):
    """structured faults: a VALID container / record file in which one header field holds an extreme
    value (the formats allow them; a random byte flip almost never produces them): yields (label, bytes)"""
    import struct
    if kind == "tar" and len(data) >= 512:
        def with_field(off, ln, raw):
            h = bytearray(data[:512])
            h[off:off + ln] = raw.ljust(ln, b"\0")[:ln]
            h[148:156] = b" " * 8
            h[148:156] = ("%06o\0 " % (sum(h) & 0o777777)).encode()
            return bytes(h) + data[512:]
        b256 = lambda v, ln: bytes([0x80]) + v.to_bytes(ln - 1, "big")
        for name, v in (("2^31", 1 << 31), ("2^33", 1 << 33), ("chrono-max+1", 8210266876800), ("2^62", 1 << 62), ("2^63-1", (1 << 63) - 1),
                        ("2^63", 1 << 63), ("2^64-1", (1 << 64) - 1)):
            yield ("tar-mtime-base256-%s" % name, with_field(136, 12, b256(v, 12)))
        yield ("tar-mtime-octal-max", with_field(136, 12, b"77777777777\0"))
        yield ("tar-mtime-garbage", with_field(136, 12, b"9z9z9z9z9z9\0"))
        yield ("tar-mtime-negative-base256", with_field(136, 12, b"\xff" * 12))
        for name, v in (("2^33", 1 << 33), ("2^63-1", (1 << 63) - 1), ("2^64-1", (1 << 64) - 1)):
            yield ("tar-size-base256-%s" % name, with_field(124, 12, b256(v, 12)))
        yield ("tar-size-octal-max", with_field(124, 12, b"77777777777\0"))
        yield ("tar-size-garbage", with_field(124, 12, b"12x45678901\0"))
        yield ("tar-uid-base256", with_field(108, 8, b256((1 << 55) - 1, 8)))
        yield ("tar-typeflag-unknown", with_field(156, 1, b"Z"))
        yield ("tar-name-no-nul-100", with_field(0, 100, b"n" * 100))
    if kind == "gz" and len(data) >= 18:
        def hdr(mtime=None, flg=None, xfl=None, osb=None):
            h = bytearray(data)
            if mtime is not None:
                h[4:8] = struct.pack("<I", mtime)
            if flg is not None:
                h[3] = flg
            if xfl is not None:
                h[8] = xfl
            if osb is not None:
                h[9] = osb
            return bytes(h)
        for v in (1, 0x7FFFFFFF, 0x80000000, 0xFFFFFFFF):
            yield ("gz-mtime-%#x" % v, hdr(mtime=v))
        for v in (0x20, 0x40, 0x80, 0xE0):
            yield ("gz-flg-reserved-%#x" % v, hdr(flg=v))
        yield ("gz-flg-fextra-without-field", hdr(flg=0x04))
        yield ("gz-flg-fname-without-nul", hdr(flg=0x08))
        for v in (0, 1, 0x7FFFFFFF, 0xFFFFFFFF):
            yield ("gz-isize-%#x" % v, data[:-4] + struct.pack("<I", v))
        yield ("gz-crc-wrong", data[:-8] + b"\0\0\0\0" + data[-4:])
    if kind == "utmp" and len(data) >= 384 and len(data) % 384 == 0:
        nrec = len(data) // 384
        def rec_with(i, off, raw):
            b = bytearray(data)
            b[384 * i + off: 384 * i + off + len(raw)] = raw
            return bytes(b)
        for i in sorted(set([0, nrec // 2, nrec - 1])):
            for v in (-1, -32768, 32767, 0x7F00, 9, 255):
                yield ("utmp-rec%d-ut_type=%d" % (i, v), rec_with(i, 0, struct.pack("<h", v)))
            for v in (-1, -(1 << 31), (1 << 31) - 1, 0):
                yield ("utmp-rec%d-tv_sec=%d" % (i, v), rec_with(i, 340, struct.pack("<i", v)))
            for v in (-1, 1000000, (1 << 31) - 1):
                yield ("utmp-rec%d-tv_usec=%d" % (i, v), rec_with(i, 344, struct.pack("<i", v)))
            yield ("utmp-rec%d-pid=-1" % i, rec_with(i, 4, struct.pack("<i", -1)))
            yield ("utmp-rec%d-strings-without-nul" % i, rec_with(i, 8, b"L" * 32 + b"I" * 4 + b"U" * 32 + b"H" * 256))
            yield ("utmp-rec%d-strings-high-bytes" % i, rec_with(i, 44, b"\xff\xfe\x80" * 10 + b"\0\0"))
            yield ("utmp-rec%d-addr-garbage" % i, rec_with(i, 348, b"\xff" * 16))


def one(job):
    d, files, idx = job
    t0 = time.time()
    rc, out, err = vlib.run_s4(["--color", "never"] + files, timeout=BOUND, env={"TZ": "UTC", "TMPDIR": d})
    return rc, out, err, time.time() - t0


def run(ctx):
    quick = ctx.quick()
    rng = ctx.rng
    if os.path.exists(os.path.join(vlib.COQ, PROP_FILE)):
        vlib.proof_stage(ctx, PROP_FILE, ["classify", "coord", "blocks"], extra_targets=[])
    else:
        ctx.obligation_broken("proof", PROP_FILE, "Props/C07.v missing")
    ok, log = vlib.build_s4()
    if not ok:
        ctx.obligation_broken("build", "s4 binary", log)
        return ctx.finish()
    root = vlib.scratch_dir("C07")
    # valid co-sources and their solo outputs
    cos = []
    for k in range(3):
        p = os.path.join(root, "co%d.log" % k)
        with open(p, "wb") as f:
            f.write(text_log(12, 4000 + 13 * k, "co%d" % k))
        cos.append(p)
    solo = {}
    for k in (1, 2, 3):
        rc, out, err = vlib.run_s4(["--color", "never"] + cos[:k], env={"TZ": "UTC"})
        solo[k] = out
        if rc != 0 or not out:
            ctx.obligation_broken("harness", "valid co-sources do not print", err.decode("utf-8", "replace"))
            return ctx.finish()

    bases = base_files()
    jobs = []
    meta = []

    def add(name, data, label, kind, with_co):
        d = os.path.join(root, "j%05d" % len(jobs))
        os.makedirs(d)
        p = os.path.join(d, name)
        with open(p, "wb") as f:
            f.write(data)
        k = rng.choice([1, 2, 3]) if with_co else 0
        files = cos[:k]
        pos = rng.randrange(k + 1) if k else 0
        files = files[:pos] + [p] + files[pos:]
        jobs.append((d, files, len(jobs)))
        meta.append(dict(kind=kind, label=label, name=name, size=len(data), co=k, pos=pos))

    for sfx, data, kind in bases:
        for label, mut in mutations(rng, data, quick):
            add("victim" + sfx, mut, label, kind, with_co=False if rng.random() < 0.5 else True)
        # extreme values in header fields of an otherwise valid file (both alone and beside valid sources)
        for label, mut in field_extremes(kind, data):
            add("victim" + sfx, mut, label, kind + "-field", with_co=False)
            add("victim" + sfx, mut, label, kind + "-field", with_co=True)
    # random byte strings of assorted lengths under every suffix
    suffixes = [b[0] for b in bases] + [".log.lz4", ".tar.gz", ".evtx.xz", ".journal.bz2", ".utmp", ".lastlog", ".acct", ".pacct", ".btmpx", ""]
    for sfx in suffixes:
        for ln in ([0, 1, 7, 64, 65, 1000, 70000] if quick else [0, 1, 2, 3, 7, 8, 63, 64, 65, 384, 385, 1000, 4096, 70000, 300000]):
            add("random" + sfx, bytes(rng.randrange(256) for _ in range(ln)), "random-%d" % ln, "random" + sfx, with_co=rng.random() < 0.5)
    # valid content under every mismatching name
    for sfx, data, kind in bases:
        for sfx2 in suffixes:
            if sfx2 != sfx and (not quick or rng.random() < 0.35):
                add("mis" + sfx2, data, "valid-%s-as-%s" % (kind, sfx2 or "none"), "misnamed", with_co=rng.random() < 0.5)

    # text content: for every datetime pattern row of the regenerated table, lines sampled from the
    # row's own regular expression (so every alternative the expression admits - month spellings,
    # zone forms, single-digit fields - reaches the normalisation code), plus the corpus of witnesses
    dtj = os.path.join(vlib.COQ, "Gen", "datetime_tables.json")
    n_text = 0
    if os.path.exists(dtj):
        import regex_sample
        rows = json.load(open(dtj))["rows"]
        per_row = 2 if quick else 12
        for r in rows:
            for rep in range(per_row):
                lines = []
                for k in range(8):
                    try:
                        smp = regex_sample.sample(r["regex"], rng)
                    except Exception:
                        smp = ""
                    pad = " " * r["start"] if r["start"] and not smp.startswith(" ") else ""
                    lines.append(pad + smp + " sampled line %d\n" % k)
                add("row%03d_%d.log" % (r["index"], rep), "".join(lines).encode("utf-8", "replace"), "regex-row-%d" % r["index"], "text-sampled", with_co=rng.random() < 0.3)
                n_text += 1
    cdir = os.path.join(vlib.ROOT, "corpus", "C07", "texts")
    if os.path.isdir(cdir):
        for n in sorted(os.listdir(cdir)):
            add(n, read(os.path.join(cdir, n)), "corpus-" + n, "text-corpus", with_co=False)
            add(n, read(os.path.join(cdir, n)), "corpus-" + n, "text-corpus", with_co=True)

    with ThreadPoolExecutor(max_workers=vlib.NCPU) as ex:
        results = list(ex.map(one, jobs))

    hist = {}
    bad = 0
    outcomes = {}
    for m, (d, files, _), (rc, out, err, wall) in zip(meta, jobs, results):
        h = hist.setdefault(m["kind"], dict(runs=0, rc0=0, rc1=0, with_co=0))
        h["runs"] += 1
        h["rc0"] += rc == 0
        h["rc1"] += rc == 1
        h["with_co"] += m["co"] > 0
        outcomes[(m["kind"], m["label"].split("@")[0].split("-")[0], rc)] = outcomes.get((m["kind"], m["label"].split("@")[0].split("-")[0], rc), 0) + 1
        errs = err.decode("utf-8", "replace")
        case = dict(m, files=[os.path.basename(f) for f in files])
        problem = None
        if rc == 124:
            problem = "hang (> %.0f s)" % BOUND
        elif rc not in (0, 1):
            problem = "exit status %d" % rc
        elif "panicked at" in errs or "RUST_BACKTRACE" in errs:
            problem = "panic message: " + errs[-300:]
        if problem:
            keep = os.path.join(vlib.OUT, "replays", "C07-input-%d-%s" % (ctx.seed, m["name"]))
            os.makedirs(os.path.dirname(keep), exist_ok=True)
            shutil.copy(os.path.join(d, m["name"]), keep)
            case["file_saved_as"] = keep
            ctx.failure(case, "exit status 0 or 1, no panic, ends promptly", problem)
            bad += 1
            continue
        if m["co"]:
            # the co-sources' lines, in order, must be exactly their solo output
            want = solo[m["co"]]
            # (a printed accounting record is followed by a stray NUL byte - C08 finding - which would
            #  otherwise glue itself to the following co-source line)
            got = b"".join(l for l in out.replace(b"\0", b"").splitlines(keepends=True) if l.startswith(b"2022-05-") and b" co" in l and b" message " in l and b"padding text" in l)
            if got != want:
                ctx.failure(case, "co-sources print as in their solo run (%d bytes)" % len(want),
                            "co-source lines differ (%d bytes)" % len(got))
                bad += 1
    distinct = len(set((m["kind"], m["label"], m["co"], m["pos"]) for m in meta))
    ctx.coverage.update(
        evaluations=len(jobs), distinct_nontrivial=distinct,
        rule="(since the extension round also: extreme values in tar / gzip header fields and utmp record fields of otherwise valid files) fault enumeration on the hooked release-like s4 binary: for each valid base file (text, gz, bz2, xz, tar, utmp(+gz,lz4), evtx(+gz), journal(+gz,lz4)) truncation at offset classes (all offsets for small files), 1-16 byte corruptions in magic/header/trailer/payload, zeroed/0xFF header, doubled, junk appended; random byte strings of assorted lengths under every recognised suffix; valid content under every mismatching suffix; text files of lines sampled from each datetime pattern row's own regular expression (all 173 rows) and corpus witnesses; about half of the runs beside 1-3 valid text sources at a random argument position; every case is a damaged or mis-typed input, distinct by (kind, mutation, co-sources, position)",
        samples=[dict(meta[i], rc=results[i][0]) for i in (0, len(meta) // 3, len(meta) // 2, len(meta) - 1)],
        by_kind=hist, failures=bad, bound_s=BOUND,
        exit_status_histogram={str(k): sum(1 for r in results if r[0] == k) for k in sorted(set(r[0] for r in results))})
    ctx.assumptions += ["third-party parsers (flate2, bzip2-rs, lzma-rs, lz4_flex, tar, evtx, libsystemd) and the unsafe struct casts are exercised, not modelled",
                        "absence of a crash is established only on the enumerated faults (support for the proof part, not a proof)"]
    shutil.rmtree(root, ignore_errors=True)
    return ctx.finish()


def replay(ctx, path):
    r = json.load(open(path))
    ok, log = vlib.build_s4()
    rcode = 0
    for f in r.get("failures", []):
        p = f["case"].get("file_saved_as")
        if p and os.path.exists(p):
            d = vlib.scratch_dir("C07r")
            q = os.path.join(d, f["case"]["name"])
            shutil.copy(p, q)
            rc, out, err = vlib.run_s4(["--color", "never", q], timeout=BOUND, env={"TZ": "UTC", "TMPDIR": d})
            print("replay %s -> rc=%s stderr=%s" % (f["case"]["name"], rc, err[-300:]))
            if rc not in (0, 1) or b"panicked at" in err:
                print("VIOLATION property=C07 replay=%s" % path)
                rcode = 1
    return rcode
