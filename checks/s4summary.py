"""Parser of the `s4 --summary` text (written to stderr by a release-like build).

Shared by C13 / C19 / C17.  Tolerant by construction: every line is matched on its own,
unknown lines are ignored, a missing line simply leaves its key out.

    s = parse(stderr_bytes_or_str)
    s["program"]   dict of the final `Program Summary:` block
        printed_bytes, printed_flushes, printed_lines, printed_syslines, printed_evtx,
        printed_fixedstruct, printed_journal, paths_considered, paths_not_processed,
        files_processed, files_printed, regex_known, regex_compiled,
        channel_recv_ok, channel_recv_err, threads_spawned                      (int)
        filter_a, filter_b, printed_first, printed_last, now                    (DT or None)
    s["files"]     list, in the order printed, of
        {"name": str,                       text after `File: ` (without the trailing notes)
         "notes": str,                      anything after the name on the `File:` line
         "about": {...}, "printed": {...}, "processed": {...}}
        each section maps the label (lower case, spaces -> '_', e.g. "blocks_high",
        "lines_high", "syslines_high", "bytes", "lines", "syslines", "entries", "events",
        "journal_events", "file_size", "block_size", "datetime_first", "datetime_last")
        to an int (first integer of the value), a DT for datetime lines, else the raw string.
        `processed` additionally has "drop_block" / "drop_line" / "drop_sysline": (ok, err).
    s["by_name"]   {name: file dict} (last wins)

DT = namedtuple(text, dt (aware datetime, second resolution as printed), epoch (int seconds, UTC)).
Colour escape sequences (the summary itself is coloured with --color always) are removed first.
"""
import re
from collections import namedtuple
from datetime import datetime, timezone, timedelta

DT = namedtuple("DT", "text dt epoch")

SGR = re.compile(rb"\x1b\[[0-9;]*m")
_DT = re.compile(r"(\d{4})-(\d\d)-(\d\d) (\d\d):(\d\d):(\d\d) ([+-])(\d\d):(\d\d)")

PROGRAM_KEYS = {
    "Paths considered": "paths_considered",
    "Paths not processed": "paths_not_processed",
    "Files processed": "files_processed",
    "Files printed": "files_printed",
    "Printed bytes": "printed_bytes",
    "Printed flushes": "printed_flushes",
    "Printed lines": "printed_lines",
    "Printed syslines": "printed_syslines",
    "Printed evtx events": "printed_evtx",
    "Printed fixedstruct": "printed_fixedstruct",
    "Printed journal events": "printed_journal",
    "Regex patterns known": "regex_known",
    "Regex patterns compiled": "regex_compiled",
    "Channel Receive ok": "channel_recv_ok",
    "Channel Receive err": "channel_recv_err",
    "Threads Spawned": "threads_spawned",
    "Thread Spawn errors": "thread_spawn_errors",
}
PROGRAM_DT_KEYS = {
    "Datetime filter -a": "filter_a",
    "Datetime filter -b": "filter_b",
    "Datetime printed first": "printed_first",
    "Datetime printed last": "printed_last",
    "Datetime Now": "now",
}


def strip_sgr(b):
    return SGR.sub(b"", b)


def parse_dt(text):
    """first `YYYY-mm-dd HH:MM:SS +hh:mm` of the text -> DT, or None"""
    m = _DT.search(text)
    if not m:
        return None
    y, mo, d, h, mi, s, sg, oh, om = m.groups()
    off = (int(oh) * 60 + int(om)) * (1 if sg == "+" else -1)
    try:
        dt = datetime(int(y), int(mo), int(d), int(h), int(mi), int(s), tzinfo=timezone(timedelta(minutes=off)))
    except ValueError:
        return None
    return DT(m.group(0), dt, int(dt.timestamp()))


def _value(label, val):
    if label.startswith("datetime") or label == "modified_time":
        return parse_dt(val) if val.strip() else None
    m = re.match(r"\s*(-?\d+)", val)
    if m:
        return int(m.group(1))
    return val.strip()


def parse(stderr):
    if isinstance(stderr, str):
        stderr = stderr.encode("utf-8", "replace")
    text = strip_sgr(stderr).decode("utf-8", "replace")
    files, program = [], {}
    cur, section = None, None
    in_program = False
    for line in text.splitlines():
        if line.startswith("Program Summary:"):
            in_program, cur, section = True, None, None
            continue
        if line.startswith("File: "):
            rest = line[len("File: "):]
            m = re.match(r"(.*?)((?: \([^()]*\))* ?(?:[A-Z][A-Z0-9/ ]*)?)$", rest)
            name, notes = rest, ""
            # the path is followed by optional "(note)" groups and a file type word list; the
            # exact name is recovered from "real path" when present, else the raw text is kept
            cur = {"name": name, "notes": notes, "raw": rest, "about": {}, "printed": {}, "processed": {}}
            files.append(cur)
            section = None
            in_program = False
            continue
        if in_program:
            m = re.match(r"^([A-Za-z][A-Za-z \-]*?)\s*:(.*)$", line)
            if not m:
                continue
            key, val = m.group(1).strip(), m.group(2)
            if key in PROGRAM_KEYS:
                mm = re.match(r"\s*(-?\d+)", val)
                if mm:
                    program[PROGRAM_KEYS[key]] = int(mm.group(1))
            elif key in PROGRAM_DT_KEYS:
                program[PROGRAM_DT_KEYS[key]] = parse_dt(val) if val.strip() else None
            continue
        if cur is None:
            continue
        m = re.match(r"^  (About|Printed|Processed|Parsers|Processing Stores|Processing Drops):\s*$", line)
        if m:
            section = m.group(1)
            continue
        if section in ("About", "Printed", "Processed"):
            m = re.match(r"^\s{4,}([A-Za-z][A-Za-z \-?]*?)\s*:(.*)$", line)
            if m:
                label = m.group(1).strip().lower().replace(" ", "_").replace("-", "_")
                cur[section.lower()][label] = _value(label, m.group(2))
        elif section == "Processing Drops":
            m = re.match(r"^\s+streaming: \w+::(drop_\w+)\(\)\s*: Ok (\d+), Err (\d+)", line)
            if m:
                cur["processed"][m.group(1)] = (int(m.group(2)), int(m.group(3)))
    for f in files:
        rp = f["about"].get("real_path")
        raw = f["raw"]
        # name = raw with the trailing filetype words / notes removed: they start at the last
        # occurrence of two candidates; keep it simple and robust: try to cut known suffix notes
        name = raw
        mm = re.match(r"^(.*?)(?: \((?:empty file|[^()]*)\))* (?:TEXT|UTMP|EVTX|JOURNAL|TAR|GZ|XZ|BZ2|LZ4|UNPARSABLE|Unparsable).*$", raw)
        if mm and mm.group(1):
            name = mm.group(1)
        f["name"] = name
        f["real_path"] = rp if isinstance(rp, str) else None
    return {"program": program, "files": files,
            "by_name": {f["name"]: f for f in files}}


def printed_bytes_by_file(s):
    """[(name, bytes)] for the files that have a Printed section with a byte count"""
    return [(f["name"], f["printed"]["bytes"]) for f in s["files"] if isinstance(f["printed"].get("bytes"), int)]


if __name__ == "__main__":
    import sys, json
    s = parse(sys.stdin.buffer.read())
    print(json.dumps(s, indent=1, default=str))
