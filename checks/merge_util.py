"""Shared machinery of the end-to-end checks C01 and C06 (k-way merge / coordinator).

Generates N text-log sources (tie-heavy instants, differing UTC offsets that denote
equal or near-equal instants, optional continuation lines, optional gz/xz
container, optional non-chronological source, optional source emptied by -a/-b),
runs the hooked s4 binary under planned schedules (S4_VERIF_PLAN) with the
coordinator trace (S4_VERIF_TRACE), and renders cases for the Coq side.

An *input* is a dict:
  sources : [ {name, msgs:[{inst, off, cont, window}], container, kind} ]  in ARGUMENT order
  opts    : list of extra CLI options (prepend options)
  window  : None | ("-a"|"-b", text, instant_ns)
  as_dir  : bool  (pass the directory instead of the files; PathId order = sorted names)
"""
import datetime, gzip, lzma, os, re, struct, subprocess, time
from concurrent.futures import ThreadPoolExecutor
import vlib

EPOCH0 = 1577880000          # 2020-01-01T12:00:00Z
DAY_NS = 86400 * 10**9
OFFSETS = [0, 0, 60, -330, 345, -480, 840, -720]      # minutes
DELTAS_US = [0, 0, 0, 0, 0, 1, 1, 2, 999, 1000, 999999, 1000000, 1000001, 60000000]
SUB_US_NS = [0, 0, 0, 0, 1, 10, 100, 990, 999, 900]   # increments below one microsecond (ns)
WORDS = ["alpha", "beta", "gamma", "delta", "kernel", "daemon", "started", "stopped", "link", "up",
         "down", "session", "opened", "closed", "for", "user", "root", "error", "warning", "ok"]
TOKEN = re.compile(rb"\bs(\d{2,})m(\d{4})\b|\but_pid (\d{6})\b")
UTMP_PID0 = 100000


def render_ts(inst_ns, off_min, frac=6):
    """ISO text of the instant (nanoseconds since the epoch) at UTC offset off_min, with `frac`
    fractional digits (6..9); the instant must be representable with that many digits"""
    gran = 10 ** (9 - frac)
    assert 6 <= frac <= 9 and inst_ns % gran == 0
    sec, ns = divmod(inst_ns, 10**9)
    loc = datetime.datetime(1970, 1, 1) + datetime.timedelta(seconds=sec + off_min * 60)
    sign = "+" if off_min >= 0 else "-"
    a = abs(off_min)
    return "%s.%0*d%s%02d:%02d" % (loc.strftime("%Y-%m-%dT%H:%M:%S"), frac, ns // gran, sign, a // 60, a % 60)


def msg_lines(sid, pos, m, rng_words):
    first = "%s s%02dm%04d %s" % (render_ts(m["inst"], m["off"], m.get("frac", 6)), sid, pos, " ".join(rng_words[:3]))
    out = [first]
    for c in range(m["cont"]):
        out.append("    continued %s %s" % (rng_words[(3 + c) % len(rng_words)], "x" * (1 + c)))
    return out


def gen_input(rng, nsrc, maxmsg, allow_unsorted=True, allow_window=True, allow_container=True,
              allow_dir=True, opts_choices=None, big=False, allow_junk=True, allow_utmp=True):
    base = EPOCH0 * 10**9
    window = None
    emptied = set()
    r = rng.random()
    if allow_window and nsrc >= 2 and r < 0.25:
        k = rng.randrange(1, max(2, nsrc // 2 + 1))
        emptied = set(rng.sample(range(nsrc), min(k, nsrc - 1)))
        if rng.random() < 0.5:
            # emptied sources lie a day EARLIER; -a cuts them
            wi = base - DAY_NS // 2
            window = ("-a", render_ts(wi, rng.choice(OFFSETS)), wi, -DAY_NS)
        else:
            wi = base + DAY_NS // 2
            window = ("-b", render_ts(wi, rng.choice(OFFSETS)), wi, +DAY_NS)
    unsorted_ok = allow_unsorted and window is None
    sources = []
    for sid in range(nsrc):
        if big:
            n = rng.choice([maxmsg // 2, maxmsg, maxmsg])
        else:
            n = rng.choice([1, 1, 2, 3, 5, 8, 13, maxmsg // 2, maxmsg])
        n = max(1, min(n, maxmsg))
        t = base + rng.choice([0, 0, 0, 1000, 1000000]) * 1000
        if sid in emptied:
            t += window[3]
        file_off = rng.choice(OFFSETS) if rng.random() < 0.5 else None
        # one notation per file: 6..9 fractional digits; s4 orders by nanoseconds
        frac = rng.choice([6, 6, 6, 7, 8, 9, 9])
        gran = 10 ** (9 - frac)
        t += (rng.choice(SUB_US_NS) // gran) * gran
        msgs = []
        for k in range(n):
            t += rng.choice(DELTAS_US) * 1000 + (rng.choice(SUB_US_NS) // gran) * gran
            off = file_off if file_off is not None else rng.choice(OFFSETS)
            cont = 0 if rng.random() < 0.85 else rng.randrange(1, 3)
            msgs.append(dict(inst=t, off=off, cont=cont, frac=frac))
        kind = "sorted"
        if unsorted_ok and n >= 2 and rng.random() < 0.15:
            kind = "unsorted"
            i, j = rng.sample(range(n), 2)
            msgs[i], msgs[j] = msgs[j], msgs[i]
            if rng.random() < 0.5:
                rng.shuffle(msgs)
        container = "plain"
        if allow_container and rng.random() < 0.12:
            container = rng.choice(["gz", "xz"])
        if allow_utmp and window is None and rng.random() < 0.12:
            # an accounting-record source (Linux utmp, 384-byte records): s4 prints its records in
            # time order whatever their physical order; the physically last record is usually NOT
            # the newest.  Times are distinct inside the file (microsecond precision).
            kind, container = "utmp", "utmp"
            n = min(n, 12)
            tt = base + rng.choice([0, 0, 1000, 1000000]) * 1000
            msgs = []
            for k in range(n):
                tt += rng.choice([1, 1, 2, 999, 1000, 999999, 1000000, 1000001]) * 1000
                msgs.append(dict(inst=tt, off=0, cont=0))
            phys = list(range(n))
            rng.shuffle(phys)
            if n >= 2 and rng.random() < 0.8 and phys[n - 1] == n - 1:
                phys[0], phys[n - 1] = phys[n - 1], phys[0]
            for k, m in enumerate(msgs):          # msgs stay in time (= printed) order
                m["phys"] = phys[k]
        if allow_junk and kind != "utmp" and nsrc >= 2 and rng.random() < 0.06:
            # a failing source: no line carries a timestamp (FileInfo(err), FileSummary)
            kind, msgs = "junk", []
        sources.append(dict(sid=sid, msgs=msgs, kind=kind, container=container))
    as_dir = allow_dir and rng.random() < 0.1
    assign_names(rng, sources, as_dir)
    opts = list(rng.choice(opts_choices or [["-n"]]))
    return dict(sources=sources, opts=opts, window=window, as_dir=as_dir)


def args_input(rng, opts_choices=None):
    """several ARGUMENTS of which some are directories: PathIds — the tie-breaker of the merge — follow
    the order in which the arguments were NAMED, a directory standing for its files in sorted path
    order.  Directories are large (many small files: walking them takes longer than opening a single
    file) and named before, between and after plain files; every source draws its instants from one
    small common set, so ties across arguments are everywhere."""
    base = EPOCH0 * 10**9
    pool = [base + k * 10**9 + rng.choice([0, 0, 500000, 999999000]) for k in range(6)]
    shape = rng.choice([["dir", "file"], ["dir", "dir"], ["file", "dir", "file"], ["dir", "file", "dir"],
                        ["dir", "dir", "file"], ["file", "dir"]])
    sources, groups = [], []
    sid = 0
    for gi, kind in enumerate(shape):
        nfiles = rng.randrange(12, 40) if kind == "dir" else 1
        if kind == "dir" and gi > 0 and rng.random() < 0.5:
            nfiles = rng.randrange(2, 6)               # a small directory after a big one
        gname = "%s%d" % (rng.choice(["a", "m", "z"]), gi)   # argument order is not name order
        grp = []
        for j in range(nfiles):
            n = rng.choice([1, 2, 3, 4])
            ts = sorted(rng.choice(pool) for _ in range(n))
            off = rng.choice(OFFSETS)
            msgs = [dict(inst=t, off=off, cont=0 if rng.random() < 0.9 else 1, frac=9) for t in ts]
            name = ("%s/f%03d.log" % (gname, j)) if kind == "dir" else ("%s-single.log" % gname)
            grp.append(dict(sid=sid, msgs=msgs, kind="sorted", container="plain", name=name))
            sid += 1
        grp.sort(key=lambda q: q["name"])
        sources += grp
        groups.append(gname if kind == "dir" else grp[0]["name"])
    opts = list(rng.choice(opts_choices or [["-n"]]))
    return dict(sources=sources, opts=opts, window=None, as_dir=False, arg_groups=groups, args_shape=shape)


def assign_names(rng, sources, as_dir):
    """names: argument order is a random permutation of name order unless passed as a directory"""
    nsrc = len(sources)
    order = list(range(nsrc))
    if not as_dir:
        rng.shuffle(order)
    tag = rng.choice(["s", "log", "x-"])
    for argpos, s in enumerate(sources):
        ext = {"plain": ".log", "gz": ".log.gz", "xz": ".log.xz", "utmp": ".wtmp"}[s["container"]]
        s["name"] = "%s%02d%s" % (tag, order[argpos], ext)
    if as_dir:
        sources.sort(key=lambda s: s["name"])


def subus_input(rng, nsrc, nanchors, opts_choices=None, allow_dir=True):
    """Instants that differ only BELOW the microsecond across sources: timestamps with 7, 8 or 9
    fractional digits; around each anchor (a whole microsecond, several anchors inside one
    millisecond) every source has a message at anchor + eps with eps < 1 us; in most anchors eps
    DEcreases with the argument position (the later-named source holds the earlier message, 1 ns /
    10 ns / 999 ns apart), mixed with exact ties (equal eps) and random eps."""
    base = EPOCH0 * 10**9 + rng.choice([0, 123456000, 999999000])
    fracs = [rng.choice([9, 9, 9, 8, 7, 6]) for _ in range(nsrc)]
    if all(f == 6 for f in fracs):
        fracs[-1] = 9
    offs = [rng.choice(OFFSETS) for _ in range(nsrc)]
    srcs = [[] for _ in range(nsrc)]
    t = base
    for a in range(nanchors):
        t += rng.choice([1000, 1000, 2000, 5000, 1000000])          # next anchor: >= 1 us later
        mode = rng.choice(["desc", "desc", "desc", "tie", "rand", "asc"])
        ladder = sorted(rng.sample([0, 1, 2, 10, 11, 100, 500, 990, 998, 999], min(nsrc, 10)), reverse=True)
        while len(ladder) < nsrc:
            ladder.append(0)
        for i in range(nsrc):
            if rng.random() < 0.15:
                continue                                            # this source has nothing at this anchor
            gran = 10 ** (9 - fracs[i])
            if mode == "desc":
                eps = ladder[i]
            elif mode == "asc":
                eps = ladder[nsrc - 1 - i]
            elif mode == "tie":
                eps = rng.choice([0, 999, 990, 900])
            else:
                eps = rng.choice(SUB_US_NS + [1, 999])
            eps = (eps // gran) * gran
            srcs[i].append(t + eps)
            d = (rng.choice([0, 1, 10]) // gran) * gran
            if rng.random() < 0.2 and eps + d < 1000:               # intra-source: same microsecond again
                srcs[i].append(t + eps + d)
    sources = []
    for i in range(nsrc):
        if not srcs[i]:
            srcs[i].append(t + 1000)
        msgs = [dict(inst=x, off=offs[i] if rng.random() < 0.8 else rng.choice(OFFSETS), cont=0, frac=fracs[i]) for x in srcs[i]]
        sources.append(dict(sid=i, msgs=msgs, kind="sorted", container="plain"))
    as_dir = allow_dir and rng.random() < 0.1
    assign_names(rng, sources, as_dir)
    return dict(sources=sources, opts=list(rng.choice(opts_choices or [["-n"]])), window=None, as_dir=as_dir, subus=True)


def blocked_input(rng, opts_choices=None):
    """A worker that stays blocked on its full channel for seconds: a FAST source with well over
    CHANNEL_CAPACITY+1 messages next to a SLOW source with one message (two, rarely) whose instant
    lies inside the fast source's range (sometimes equal to one of its instants).  Run with a plan
    `slow=<slow name>:<2.6-3.5 s>` every send of the slow source (FileInfo, message, FileSummary)
    takes seconds, during which the coordinator cannot print and the fast worker sits in `send`.
    Optionally a third, ordinary source."""
    base = EPOCH0 * 10**9
    nfast = rng.choice([12, 20, 40, 80])
    t = base
    fast = []
    for k in range(nfast):
        t += rng.choice([0, 1, 10, 1000, 1000, 999000, 1000000, 1000000000])
        fast.append(dict(inst=t, off=rng.choice(OFFSETS), cont=0, frac=9))
    nslow = 1 if rng.random() < 0.8 else 2
    picks = sorted(rng.sample(range(nfast), nslow))
    slow = []
    for j in picks:
        x = fast[j]["inst"] + rng.choice([0, 0, 1, -1, 500])
        if slow and x < slow[-1]["inst"]:
            x = slow[-1]["inst"]
        slow.append(dict(inst=x, off=rng.choice(OFFSETS), cont=0, frac=9))
    srcs = [dict(msgs=fast, kind="sorted", container="plain", role="fast"),
            dict(msgs=slow, kind="sorted", container="plain", role="slow")]
    if rng.random() < 0.4:
        t3 = base
        third = []
        for k in range(rng.randrange(1, 9)):
            t3 += rng.choice([0, 1000, 1000000, 500000000])
            third.append(dict(inst=t3, off=0, cont=0, frac=6))
        srcs.append(dict(msgs=third, kind="sorted", container="plain", role="other"))
    rng.shuffle(srcs)
    for i, s in enumerate(srcs):
        s["sid"] = i
    assign_names(rng, srcs, False)
    slow_name = [s["name"] for s in srcs if s["role"] == "slow"][0]
    return dict(sources=srcs, opts=list(rng.choice(opts_choices or [["-n"]])), window=None, as_dir=False,
                blocked=True, slow_name=slow_name, slow_sends=nslow + 2)


def subus_inversions(inp):
    """number of cross-source pairs inside one microsecond whose nanosecond order is the reverse of
    the argument order (the later-named source holds the earlier message)"""
    buckets = {}
    for i, l in enumerate(instants(inp)):
        for x in l:
            buckets.setdefault(x // 1000, []).append((i, x))
    n = 0
    for b in buckets.values():
        for (i, x) in b:
            for (j, y) in b:
                if i < j and y < x:
                    n += 1
    return n


def in_window(inp, m):
    w = inp["window"]
    if w is None:
        return True
    return m["inst"] >= w[2] if w[0] == "-a" else m["inst"] <= w[2]


def write_input(inp, d, seed_words):
    os.makedirs(d, exist_ok=True)
    for s in inp["sources"]:
        if s["kind"] == "utmp":
            recs = sorted(s["msgs"], key=lambda m: m["phys"])
            with open(os.path.join(d, s["name"]), "wb") as f:
                for m in recs:
                    sec, ns = divmod(m["inst"], 10**9)
                    pid = UTMP_PID0 + s["sid"] * 1000 + m["phys"]
                    m["lines"] = None
                    f.write(struct.pack("<hxxi32s4s32s256shhiii4i20s", 7, pid, b"pts/%d" % m["phys"], b"t%d" % (m["phys"] % 100),
                                        b"user%d" % s["sid"], b"host%d" % s["sid"], 0, 0, 0, sec, ns // 1000, 0, 0, 0, 0, b""))
            continue
        lines = []
        for pos, m in enumerate(s["msgs"]):
            w = [WORDS[(seed_words + s["sid"] * 7 + pos * 3 + k) % len(WORDS)] for k in range(6)]
            m["lines"] = msg_lines(s["sid"], pos, m, w)
            lines += m["lines"]
        if s["kind"] == "junk":
            lines = ["no timestamp on this line only %s words" % WORDS[(seed_words + k) % len(WORDS)] for k in range(4)]
        data = ("\n".join(lines) + "\n").encode()
        p = os.path.join(d, s["name"])
        os.makedirs(os.path.dirname(p), exist_ok=True)
        if s["container"] == "gz":
            with gzip.GzipFile(p, "wb", mtime=0) as f:
                f.write(data)
        elif s["container"] == "xz":
            with open(p, "wb") as f:
                f.write(lzma.compress(data, format=lzma.FORMAT_XZ))
        else:
            with open(p, "wb") as f:
                f.write(data)
    inp["dir"] = d


def argv(inp):
    if inp.get("fixture"):
        return ["--color", "never"] + list(inp["opts"]) + list(inp["paths"])
    a = ["--color", "never"] + list(inp["opts"])
    if inp["window"]:
        a += [inp["window"][0], inp["window"][1]]
    if inp.get("arg_groups"):
        a += [os.path.join(inp["dir"], g) for g in inp["arg_groups"]]
    elif inp["as_dir"]:
        a.append(inp["dir"])
    else:
        a += [os.path.join(inp["dir"], s["name"]) for s in inp["sources"]]
    return a


def instants(inp):
    """in-window instants per source, ARGUMENT (= PathId) order"""
    return [[m["inst"] for m in s["msgs"] if in_window(inp, m)] for s in inp["sources"]]


def kway_merge(srcs):
    """independent oracle: repeatedly take the smallest head, first source on ties.
    Returns [(source index, position)]."""
    idx = [0] * len(srcs)
    out = []
    while True:
        best = None
        for i, l in enumerate(srcs):
            if idx[i] < len(l) and (best is None or l[idx[i]] < srcs[best][idx[best]]):
                best = i
        if best is None:
            return out
        out.append((best, idx[best]))
        idx[best] += 1


def prefix_for(inp, s, m):
    """bytes that s4 prepends to each line of message m of source s under inp['opts']"""
    o = inp["opts"]
    parts = []
    if "-n" in o or "-p" in o:
        full = (lambda x: os.path.basename(x["name"])) if "-n" in o else (lambda x: os.path.join(inp["dir"], x["name"]))
        width = 0
        if "-w" in o:
            width = max([len(full(x)) for x in inp["sources"] if any(in_window(inp, mm) for mm in x["msgs"])] or [0])
        parts.append(full(s).ljust(width))
    if "-d" in o:
        sec, ns = divmod(m["inst"], 10**9)
        parts = parts + ["%d.%09d" % (sec, ns)]
    if not parts:
        return b""
    return (":".join(parts) + ":").encode()


def expected_stdout(inp):
    srcs = instants(inp)
    vis = [[(pos, m) for pos, m in enumerate(s["msgs"]) if in_window(inp, m)] for s in inp["sources"]]
    out = []
    order = []
    for (i, k) in kway_merge(srcs):
        s = inp["sources"][i]
        pos, m = vis[i][k]
        order.append((i, k))
        if m.get("lines") is None:
            out = None            # record rendering is not modelled here: order only
        if out is not None:
            pre = prefix_for(inp, s, m)
            for ln in m["lines"]:
                out.append(pre + ln.encode() + b"\n")
    return (b"".join(out) if out is not None else None), order


def observed_order(inp, stdout):
    """attribute stdout lines to (PathId, in-window position) by the token in each message's first line"""
    sid2arg = {s["sid"]: i for i, s in enumerate(inp["sources"])}
    vispos = {}
    for i, s in enumerate(inp["sources"]):
        k = 0
        for pos, m in enumerate(s["msgs"]):
            if in_window(inp, m):
                vispos[(s["sid"], m["phys"] if s["kind"] == "utmp" else pos)] = k
                k += 1
    obs = []
    for ln in stdout.split(b"\n"):
        mt = TOKEN.search(ln)
        if mt:
            if mt.group(3):
                sid, pos = divmod(int(mt.group(3)) - UTMP_PID0, 1000)
            else:
                sid, pos = int(mt.group(1)), int(mt.group(2))
            obs.append((sid2arg.get(sid, 99), vispos.get((sid, pos), 9999)))
    return obs


def tokens_of(stdout):
    """the message tokens of stdout in order (used by replays that compare the order only)"""
    return [mt.group(0).decode() for ln in stdout.split(b"\n") for mt in [TOKEN.search(ln)] if mt]


def expected_tokens(inp):
    vis = [[(pos, m) for pos, m in enumerate(s["msgs"]) if in_window(inp, m)] for s in inp["sources"]]
    out = []
    for (i, k) in kway_merge(instants(inp)):
        s = inp["sources"][i]
        pos, m = vis[i][k]
        out.append("ut_pid %d" % (UTMP_PID0 + s["sid"] * 1000 + m["phys"]) if s["kind"] == "utmp" else "s%02dm%04d" % (s["sid"], pos))
    return out


CODE = {"I": 0, "M": 1, "S": 2, "E": 3}


def parse_trace(path):
    ev = []
    if not os.path.exists(path):
        return None
    for l in open(path):
        a = l.split()
        if len(a) < 2:
            return None
        if a[0] == "R":
            ev.append((CODE.get(a[2], 3), int(a[1])))
        elif a[0] == "P":
            ev.append((4, int(a[1])))
        elif a[0] == "D":
            ev.append((5, int(a[1])))
        else:
            return None
    return ev


def run_case(inp, plan, trace_path=None, timeout=60):
    env = {"TZ": "UTC"}
    if plan:
        env["S4_VERIF_PLAN"] = plan
    if trace_path:
        if os.path.exists(trace_path):
            os.remove(trace_path)
        env["S4_VERIF_TRACE"] = trace_path
    t0 = time.time()
    rc, out, err = vlib.run_s4(argv(inp), timeout=timeout, env=env)
    return dict(rc=rc, stdout=out, stderr=err, wall=time.time() - t0, plan=plan,
                trace=parse_trace(trace_path) if trace_path else None)


def run_many(jobs, workers=8):
    """jobs: list of (inp, plan, trace_path, timeout) -> list of results in order"""
    with ThreadPoolExecutor(max_workers=workers) as ex:
        futs = [ex.submit(run_case, *j) for j in jobs]
        return [f.result() for f in futs]


# ----------------------------------------------------------------------------- Coq rendering

def zlist(l):
    return "[" + "; ".join("%d%%Z" % x for x in l) + "]"


def pairs(l):
    return "[" + "; ".join("(%d, %d)" % p for p in l) + "]"


def coq_case(srcs, obs):
    return "([%s], %s)" % ("; ".join(zlist(s) for s in srcs), pairs(obs))


def coq_cases_text(imports, fn, cases):
    hdr = vlib.COQ_PRINT_HDR + "From Coq Require Import List ZArith NArith.\nImport ListNotations.\n%s\nOpen Scope N_scope.\n" % imports
    return hdr + "Definition cases : list (list (list Z) * list (N * N)) := [\n%s\n].\nEval vm_compute in (%s cases).\n" % (
        ";\n".join(cases), fn)


def eval_cases(workdir, imports, fn, cases, nshards=None):
    """cases: list of coq case strings. returns (ok, {case index: code}, log)"""
    if not cases:
        return True, {}, ""
    idx = list(range(len(cases)))
    shards = vlib.shard(idx, nshards or vlib.NCPU)
    texts = [coq_cases_text(imports, fn, [cases[i] for i in sh]) for sh in shards]
    res = vlib.coq_eval_shards(workdir, texts)
    bad = {}
    for sh, (rc, out) in zip(shards, res):
        pr = vlib.parse_eval_pairs(out) if rc == 0 else None
        if pr is None:
            return False, bad, out
        for k, c in pr:
            bad[sh[k]] = c
    return True, bad, ""


def describe(inp):
    if inp.get("fixture"):
        return dict(argv=argv(inp), fixture=True, paths=list(inp["paths"]))
    return dict(argv=argv(inp), window=inp["window"][:2] if inp["window"] else None, as_dir=inp["as_dir"],
                physically_last_record_not_newest=[s["name"] for s in inp["sources"] if s["kind"] == "utmp" and s["msgs"] and max(m["phys"] for m in s["msgs"]) != s["msgs"][-1]["phys"]],
                sources=[dict(name=s["name"], kind=s["kind"], container=s["container"], messages=len(s["msgs"]),
                              in_window=sum(1 for m in s["msgs"] if in_window(inp, m))) for s in inp["sources"]])


def save_input(inp, dest):
    """copy the input files next to a replay (replays/ is outside .cache scratch)"""
    import shutil
    if os.path.isdir(dest):
        shutil.rmtree(dest)
    shutil.copytree(inp["dir"], dest)
    return dest


def save_failure(prop, seed, inp, plan, exp_bytes, n, extra=None):
    """copy a failing input under replays/<prop>-inputs/<seed>-<n>/in and the expected stdout next to
    it (not inside: the directory itself may be the argument); returns the case dict"""
    dest = os.path.join(vlib.ROOT, "replays", "%s-inputs" % prop, "%d-%d" % (seed, n))
    if os.path.isdir(dest):
        import shutil
        shutil.rmtree(dest)
    os.makedirs(dest)
    ind = os.path.join(dest, "in")
    save_input(inp, ind)
    # the rendering depends on the directory (-p prepends the path): render for the saved copy
    exp_bytes = expected_stdout(dict(inp, dir=ind))[0]
    if exp_bytes is not None:
        with open(os.path.join(dest, "EXPECTED_STDOUT"), "wb") as f:
            f.write(exp_bytes)
    import json
    with open(os.path.join(dest, "EXPECTED_TOKENS.json"), "w") as f:
        json.dump(expected_tokens(inp), f)
    c = dict(dir=dest, argv=argv(dict(inp, dir=ind)), plan=plan, describe=describe(inp))
    if extra:
        c.update(extra)
    return c


def replay_failures(prop, path, repeats=1):
    import json
    r = json.load(open(path))
    vlib.build_s4()
    bad = 0
    for f in r.get("failures", []):
        c = f["case"]
        plans = c.get("plans") or [c.get("plan")]
        if c.get("whole_invocation"):
            if prog_replay_one(c):
                bad += 1
            continue
        if c.get("fixture"):
            # instants are read back from the output: the order must be the k-way merge of them,
            # and identical for every plan
            outs = set()
            for plan in plans:
                for k in range(repeats):
                    env = {"TZ": "UTC"}
                    if plan:
                        env["S4_VERIF_PLAN"] = plan
                    rc, out, err = vlib.run_s4(c["argv"], timeout=60, env=env)
                    pr = parse_fixture(dict(paths=c["paths"]), out)
                    okk = rc == 0 and pr is not None and pr[1] == kway_merge(pr[0])
                    outs.add(out)
                    print("replay plan=%s rc=%d order %s k-way merge of the printed instants  argv=%s" % (
                        plan, rc, "==" if okk else "!=", " ".join(c["argv"])))
                    if not okk:
                        bad += 1
            if len(outs) > 1:
                print("replay: %d distinct outputs across plans" % len(outs))
                bad += 1
            continue
        pe = os.path.join(c["dir"], "EXPECTED_STDOUT")
        expb = open(pe, "rb").read() if os.path.exists(pe) else None
        expt = json.load(open(os.path.join(c["dir"], "EXPECTED_TOKENS.json"))) if expb is None else None
        for plan in plans:
            for k in range(repeats):
                env = {"TZ": "UTC"}
                if plan:
                    env["S4_VERIF_PLAN"] = plan
                rc, out, err = vlib.run_s4(c["argv"], timeout=60, env=env)
                if expb is None:
                    same = (rc == 0 and tokens_of(out) == expt)
                    print("replay plan=%s rc=%d message order %s expected (%d vs %d messages)  argv=%s" % (
                        plan, rc, "==" if same else "!=", len(tokens_of(out)), len(expt), " ".join(c["argv"])))
                    if not same:
                        bad += 1
                    continue
                same = (rc == 0 and out == expb)
                print("replay plan=%s rc=%d stdout %s expected (%d vs %d bytes)  argv=%s" % (
                    plan, rc, "==" if same else "!=", len(out), len(expb), " ".join(c["argv"])))
                if not same:
                    bad += 1
    if bad:
        print("VIOLATION property=%s replay=%s" % (prop, path))
        return 1
    return 0


# ----------------------------------------------------------------------------- fixtures of other kinds
# Sources of the other supported kinds (utmp records, Windows event log, systemd journal, in
# their compressed variants) are taken from /repo/logs.  Their instants are not known to the
# generator; they are read from s4's own output: with -p -u -d '%s%.9f' every line carries the
# source path and the UTC instant of its message, and --separator marks message boundaries.
# The check is then: the order of the output equals the k-way merge of the per-source instant
# sequences (identical copies of one file in different containers give all-ties inputs).
SEP_ARG = "@@SEP@@\\n"
SEP_B = b"@@SEP@@\n"
FIXTURE_OPTS = ["-p", "-u", "-d", "%s%.9f", "--separator", SEP_ARG]
FIXTURE_FAMILIES = {
    "utmp": ["logs/programs/utmp/host-entry6.wtmp" + e for e in ("", ".gz", ".xz", ".bz2", ".lz4")],
    "evtx": ["logs/programs/evtx/Microsoft-Windows-Kernel-PnP%4Configuration.evtx" + e for e in (".gz", ".xz", ".bz2", ".lz4")],
    "journal": ["logs/programs/journal/Ubuntu22-user-1000x3.journal" + e for e in (".gz", ".bz2", ".lz4", ".xz")],
}
DT_RE = re.compile(rb"(\d+)\.(\d{9}):")


def fixture_families():
    out = {}
    for k, l in FIXTURE_FAMILIES.items():
        ex = [os.path.join(vlib.REPO, p) for p in l if os.path.isfile(os.path.join(vlib.REPO, p)) and os.path.getsize(os.path.join(vlib.REPO, p)) > 64]
        if ex:
            out[k] = ex
    return out


def fixture_input(rng, fams):
    keys = sorted(fams)
    fam = rng.choice(keys)
    paths = rng.sample(fams[fam], rng.randrange(2, len(fams[fam]) + 1)) if len(fams[fam]) >= 2 else list(fams[fam])
    if len(keys) > 1 and rng.random() < 0.6:
        other = rng.choice([k for k in keys if k != fam])
        paths += rng.sample(fams[other], rng.randrange(1, min(2, len(fams[other])) + 1))
    rng.shuffle(paths)
    return dict(fixture=True, paths=paths, opts=list(FIXTURE_OPTS), family=fam, sources=[dict(name=os.path.basename(p)) for p in paths])


def parse_fixture(inp, stdout):
    """-> (per-source instants in ns, observed order [(source, k)]) or None when a line cannot be attributed"""
    pbs = [p.encode() for p in inp["paths"]]
    srcs = [[] for _ in pbs]
    obs = []
    chunks = stdout.split(SEP_B)
    if chunks and chunks[-1].strip() != b"":
        return None
    for ch in chunks[:-1]:
        ln = ch.split(b"\n", 1)[0]
        hit = None
        for i, pb in enumerate(pbs):
            if ln.startswith(pb + b":"):
                m = DT_RE.match(ln[len(pb) + 1:])
                if m:
                    hit = (i, m)
                    break
            m = DT_RE.match(ln)
            if m and ln[m.end():].startswith(pb + b":"):
                hit = (i, m)
                break
        if hit is None:
            return None
        i, m = hit
        obs.append((i, len(srcs[i])))
        srcs[i].append(int(m.group(1)) * 10**9 + int(m.group(2)))
    return srcs, obs


def corpus_inputs(prop):
    """hand-picked inputs of corpus/<prop>/inputs.json as input dicts (not yet written to disk)"""
    import json
    p = os.path.join(vlib.ROOT, "corpus", prop, "inputs.json")
    if not os.path.exists(p):
        return []
    out = []
    for c in json.load(open(p))["inputs"]:
        n = len(c["sources"])
        srcs = []
        for argpos, l in enumerate(c["sources"]):
            msgs = [dict(inst=EPOCH0 * 10**9 + e[0] * 1000 + (e[3] if len(e) > 3 else 0), off=e[1], cont=e[2],
                         frac=(e[4] if len(e) > 4 else 6)) for e in l]
            kind = "sorted" if all(a["inst"] <= b["inst"] for a, b in zip(msgs, msgs[1:])) else "unsorted"
            srcs.append(dict(sid=argpos, msgs=msgs, kind=kind, container="plain", name="c%02d.log" % (n - 1 - argpos)))
        out.append(dict(sources=srcs, opts=list(c["opts"]), window=None, as_dir=False, corpus=c["name"]))
    return out


# ----------------------------------------------------------------------------- whole invocations (work package H)
# Random WHOLE invocations of the real binary — 1..5 text files (plain and .gz) with cross-file
# ties and multi-line messages, files with and without a final newline, a window on / around the
# instants present, decoration options, --blocksz, --summary — compared with
#   C: Program.program_spec (Coq, vm_compute; Corr/C01p.spec_bad) and an independent python rendering,
#   B: Program.program_m at that block size under the schedule recorded by hook H1 (Corr/C01p.model_bad).
PROG_FORMATS = [None, None, None, "%Y%m%dT%H%M%S%.3f%z", "%s%.9f", "%Y-%m-%d %H:%M:%S%.6f %:z", "%s.%f", "%F %T", "%H:%M:%S%.3f"]
PROG_ZONES = [None, None, ("-u", 0, None), ("-u", 0, None), ("-z", 19800, "+05:30"), ("-z", -12600, "-03:30"),
              ("-z", 3600, "+01:00"), ("-l", 20700, "Asia/Kathmandu")]
PROG_PSEPS = [":", ":", ":", " | ", "", "@@", "\t"]
PROG_SEPS = [("", b""), ("", b""), ("", b""), ("|", b"|"), ("\\n", b"\n"), ("--\\n", b"--\n"), ("<sep>", b"<sep>"),
             ("\\t\\0", b"\t\0"), ("\\\\", b"\\")]
PROG_BS = [None, None, 64, 64, 65, 100, 128, 127, 500, 4096]
PROG_DEFAULT_FMT = "%Y%m%dT%H%M%S%.3f%z"


def prog_strftime(fmt, t_ns, off_s):
    """the chrono specifiers used by PROG_FORMATS, with python datetime"""
    secs, nano = divmod(t_ns, 10 ** 9)
    dt = datetime.datetime(1970, 1, 1) + datetime.timedelta(seconds=secs + off_s)
    sign = "-" if off_s < 0 else "+"
    a = abs(off_s) // 60
    out, i = [], 0
    while i < len(fmt):
        if fmt[i] != "%":
            out.append(fmt[i]); i += 1; continue
        nx = fmt[i + 1:i + 4]
        if nx[:1] in "YmdHMS":
            out.append({"Y": "%04d" % dt.year, "m": "%02d" % dt.month, "d": "%02d" % dt.day, "H": "%02d" % dt.hour,
                        "M": "%02d" % dt.minute, "S": "%02d" % dt.second}[nx[0]]); i += 2
        elif nx[:1] == "f":
            out.append("%09d" % nano); i += 2
        elif nx[:1] == "z":
            out.append("%s%02d%02d" % (sign, a // 60, a % 60)); i += 2
        elif nx[:2] == ":z":
            out.append("%s%02d:%02d" % (sign, a // 60, a % 60)); i += 3
        elif nx[:1] == "s":
            out.append(str(secs)); i += 2
        elif nx[:1] == "T":
            out.append("%02d:%02d:%02d" % (dt.hour, dt.minute, dt.second)); i += 2
        elif nx[:1] == "F":
            out.append("%04d-%02d-%02d" % (dt.year, dt.month, dt.day)); i += 2
        elif nx[:1] == "." and nx[1:2] in "369" and nx[2:3] == "f":
            out.append("." + ("%09d" % nano)[:int(nx[1])]); i += 4
        else:
            raise ValueError("unsupported specifier in %r" % fmt)
    return "".join(out)


def prog_input(rng, idx, scratch):
    """one whole invocation: sources (gen_input, chronological text only), containers plain/gz,
    some files without final newline, options, window, block size"""
    ns = rng.choice([1, 2, 2, 3, 3, 4, 5])
    inp = gen_input(rng, ns, rng.choice([3, 6, 12, 20]), allow_unsorted=False, allow_window=False, allow_container=False,
                    allow_dir=False, opts_choices=[[]], allow_junk=False, allow_utmp=False)
    for s in inp["sources"]:
        if rng.random() < 0.3:
            s["container"] = "gz"
            s["name"] = s["name"][:-4] + ".log.gz" if s["name"].endswith(".log") else s["name"] + ".gz"
        s["final_nl"] = rng.random() < 0.55
        for m in s["msgs"]:
            m["cont"] = 0 if rng.random() < 0.7 else rng.randrange(1, 4)
    # cross-file ties: half of the later sources take their instants from the first source's
    if len(inp["sources"]) > 1:
        pool = [m["inst"] for m in inp["sources"][0]["msgs"]]
        for s in inp["sources"][1:]:
            if rng.random() < 0.5:
                gran = 10 ** (9 - s["msgs"][0].get("frac", 6))
                new = sorted((rng.choice(pool) // gran) * gran for _ in s["msgs"])
                for m, t in zip(s["msgs"], new):
                    m["inst"] = t
    # names of different lengths (alignment): prefix some
    for k, s in enumerate(inp["sources"]):
        if rng.random() < 0.4:
            s["name"] = rng.choice(["x", "host-", "a-long-name-"]) + s["name"]
    d = os.path.join(scratch, "prog%04d" % idx)
    os.makedirs(d, exist_ok=True)
    for s in inp["sources"]:
        lines = []
        for pos, m in enumerate(s["msgs"]):
            w = WORDS[(idx + s["sid"] * 7 + pos * 3) % len(WORDS)]
            first = "%s s%02dm%04d %s" % (render_ts(m["inst"], m["off"], m.get("frac", 6)), s["sid"], pos, w)
            m["lines"] = [first] + ["    continued %s %s" % (WORDS[(pos + c) % len(WORDS)], "x" * (1 + c)) for c in range(m["cont"])]
            lines += m["lines"]
        data = "\n".join(lines).encode() + (b"\n" if s["final_nl"] else b"")
        s["data"] = data
        p = os.path.join(d, s["name"])
        if s["container"] == "gz":
            with gzip.GzipFile(p, "wb", mtime=0) as f:
                f.write(data)
        else:
            with open(p, "wb") as f:
                f.write(data)
    inp["dir"] = d
    # window on / around the instants present (microsecond granularity of the -a/-b text)
    allinst = sorted(set(m["inst"] for s in inp["sources"] for m in s["msgs"]))
    lo = hi = None
    r = rng.random()
    if r < 0.55:
        def bound():
            t = rng.choice(allinst)
            us = t // 1000 + rng.choice([0, 0, 0, 1, -1, 1000, -1000])
            return us * 1000
        if rng.random() < 0.7:
            lo = bound()
        if lo is None or rng.random() < 0.6:
            hi = bound()
        if lo is not None and hi is not None and hi < lo:
            lo, hi = hi, lo                 # s4 refuses -a later than -b; empty selections arise between instants
    inp["lo"], inp["hi"] = lo, hi
    inp["fmode"] = rng.choice([None, "-n", "-n", "-p"])
    inp["align"] = inp["fmode"] is not None and rng.random() < 0.5
    inp["zone"] = rng.choice(PROG_ZONES)
    inp["fmt"] = rng.choice(PROG_FORMATS)
    inp["psep"] = rng.choice(PROG_PSEPS)
    inp["sep"] = rng.choice(PROG_SEPS)
    inp["bs"] = rng.choice(PROG_BS)
    inp["summary"] = rng.random() < 0.7
    return inp


def prog_env(inp):
    env = {"TZ": "UTC"}
    if inp["zone"] and inp["zone"][0] == "-l":
        env["TZ"] = inp["zone"][2]
    return env


def prog_argv(inp, d=None):
    d = d or inp["dir"]
    a = ["--color", "always" if inp.get("colour") else "never"]
    if inp.get("jout") is not None:
        a += ["--journal-output", JOURNAL_OUTPUTS[inp["jout"]]]
    if inp["fmode"]:
        a.append(inp["fmode"])
    if inp["align"]:
        a.append("-w")
    if inp["zone"]:
        z = inp["zone"]
        a += [z[0]] if z[0] != "-z" else ["--prepend-tz=" + z[2]]
    if inp["fmt"] is not None:
        a += ["-d", inp["fmt"]]
    if inp["psep"] != ":":
        a.append("--prepend-separator=" + inp["psep"])
    if inp["sep"][0]:
        a.append("--separator=" + inp["sep"][0])
    if inp["bs"]:
        a += ["--blocksz", str(inp["bs"])]
    if inp["lo"] is not None:
        a += ["-a", render_ts(inp["lo"], 0)]
    if inp["hi"] is not None:
        a += ["-b", render_ts(inp["hi"], 0)]
    if inp["summary"]:
        a.append("--summary")
    return a + [prog_path(inp, s, d) for s in inp["sources"]]


def prog_date(inp):
    """(on, format, offset seconds) — prepend_dt_format after cli_process_args"""
    fmt = inp["fmt"]
    off = 0
    if inp["zone"]:
        off = inp["zone"][1]
        if fmt is None:
            fmt = PROG_DEFAULT_FMT
    if fmt is None:
        return False, None, 0
    return True, fmt, off


def prog_in_window(inp, t):
    return (inp["lo"] is None or inp["lo"] <= t) and (inp["hi"] is None or t <= inp["hi"])


def prog_names(inp, d=None):
    d = d or inp["dir"]
    if inp["fmode"] == "-n":
        return [os.path.basename(prog_path(inp, s, d)) for s in inp["sources"]]
    if inp["fmode"] == "-p":
        return [prog_path(inp, s, d) for s in inp["sources"]]
    return ["" for s in inp["sources"]]


def prog_expected(inp, d=None):
    """independent python rendering: (stdout bytes, summary numbers, print order [(src, pos)]);
    (None, None, None) for an invocation with sources of other kinds than year-bearing text"""
    if inp.get("colour") or any(s.get("kind") in ("yearless", "records", "journal", "evtx") for s in inp["sources"]):
        return None, None, None
    vis = [[(pos, m) for pos, m in enumerate(s["msgs"]) if prog_in_window(inp, m["inst"])] for s in inp["sources"]]
    order = kway_merge([[m["inst"] for _, m in v] for v in vis])
    names = prog_names(inp, d)
    printed = set(i for i, _ in order)
    width = max([len(names[i]) for i in printed] or [0]) if inp["align"] else 0
    on, fmt, off = prog_date(inp)
    psep = inp["psep"]
    out = bytearray()
    nlines = 0
    insts = []
    for (i, k) in order:
        s = inp["sources"][i]
        pos, m = vis[i][k]
        pre = ""
        if inp["fmode"]:
            pre += names[i].ljust(width) + psep
        if on:
            pre += prog_strftime(fmt, m["inst"], off) + psep
        last_of_file = pos == len(s["msgs"]) - 1
        for j, ln in enumerate(m["lines"]):
            lastline = last_of_file and j == len(m["lines"]) - 1
            out += pre.encode() + ln.encode() + (b"" if (lastline and not s["final_nl"]) else b"\n")
            nlines += 1
        out += inp["sep"][1]
        if last_of_file and not s["final_nl"]:
            out += b"\n"
        insts.append(m["inst"])
    nums = [len(out), nlines, len(order), 0, 0, 0, (min(insts) // 10**9 if insts else -1), (max(insts) // 10**9 if insts else -1)]
    return bytes(out), nums, order


def prog_summary_nums(stderr):
    import s4summary
    p = s4summary.parse(stderr)["program"]
    f, l = p.get("printed_first"), p.get("printed_last")
    return [p.get("printed_bytes", -7), p.get("printed_lines", -7), p.get("printed_syslines", -7),
            p.get("printed_fixedstruct", -7), p.get("printed_evtx", -7), p.get("printed_journal", -7),
            f.epoch if f else -1, l.epoch if l else -1]


def hexchunks(b, n=2048):
    h = b.hex()
    return "[" + "; ".join('"%s"' % h[i:i + 2 * n] for i in range(0, len(h), 2 * n)) + "]" if h else "[]"


def coq_optz(x):
    return "None" if x is None else "(Some (%d)%%Z)" % x


def prog_coq_case(inp, stdout, nums):
    """Corr/C01p.spec_case"""
    on, fmt, off = prog_date(inp)
    names = prog_names(inp)
    joff = inp["zone"][1] if (inp["zone"] and inp["zone"][0] == "-l") else 0       # fallback zone = local zone (TZ)
    o = "(%s, %s, \"%s\", %s, \"%s\", (%d)%%Z, \"%s\", %s, %s, %s, (%s, %d, (%d)%%Z))" % (
        "true" if inp["fmode"] else "false", "true" if inp["align"] else "false", inp["psep"].encode().hex(),
        "true" if on else "false", (fmt or "").encode().hex(), off, inp["sep"][1].hex(),
        "true" if inp["summary"] else "false", coq_optz(inp["lo"]), coq_optz(inp["hi"]),
        "true" if inp.get("colour") else "false", inp.get("jout") or 0, joff)
    fs = []
    tab = {}
    ytab = {}
    stab = {}
    for i, s in enumerate(inp["sources"]):
        nb = names[i].encode()
        kind = s.get("kind")
        data = s.get("data", b"")
        ck = "CText"
        if kind == "yearless":
            ck = "(CYearless (%d)%%Z (%d)%%Z)" % (s["off"], s["mtime"])
            for pos, m in enumerate(s["msgs"]):
                ln = m["lines"][0].encode()
                whole = pos == len(s["msgs"]) - 1 and len(m["lines"]) == 1 and not s["final_nl"]
                ytab[ln if whole else ln + b"\n"] = m["ymd"]
        elif kind == "records":
            ck = "(CRecords %d \"%s\")" % (s["hint"], s["layout"])
        elif kind == "evtx":
            rs = []
            for (t, text) in (s.get("msgs_probe") or []):
                keep = prog_in_window(inp, t)
                rs.append("Some ((%d)%%Z, %s)" % (t, hexchunks(text if keep else b"")))
            ck = "(CEvtx [%s])" % "; ".join(rs)
            data = b""
        elif kind == "journal":
            es = ["((%d)%%Z, \"%s\", %s, [%s])" % (t, cur.hex(), "None" if mono is None else "(Some %d)" % mono,
                                                  "; ".join("(\"%s\", \"%s\")" % (k.hex(), v.hex()) for k, v in pairs))
                  for (t, cur, mono, pairs) in (s.get("entries") or [])]
            ck = "(CJournal [%s])" % "; ".join(es)
            data = b""
        else:
            for pos, m in enumerate(s["msgs"]):
                ln = m["lines"][0].encode()
                whole = pos == len(s["msgs"]) - 1 and len(m["lines"]) == 1 and not s["final_nl"]
                tab[ln if whole else ln + b"\n"] = m["inst"]
                stab[ln if whole else ln + b"\n"] = (0, len(render_ts(m["inst"], m["off"], m.get("frac", 6))))
        fs.append("(\"%s\", %d, %d, %s, %s, %s)" % (nb.hex(), len(names[i]), len(names[i]),
                                                     "true" if s["container"] == "gz" else "false", hexchunks(data), ck))
    ytabs = "[" + "; ".join("(\"%s\", ((%d)%%Z, (%d)%%Z, (%d)%%Z))" % ((k.hex(),) + v) for k, v in ytab.items()) + "]"
    tabs = "[" + "; ".join("(\"%s\", (%d)%%Z)" % (k.hex(), v) for k, v in tab.items()) + "]"
    stabs = "[" + "; ".join("(\"%s\", (%d, %d))" % (k.hex(), v[0], v[1]) for k, v in stab.items()) + "]" if inp.get("colour") else "[]"
    return "(%s, [%s], %s, %s, %s, %d, %s, [%s])" % (o, "; ".join(fs), tabs, ytabs, stabs, inp["bs"] or 65536, hexchunks(stdout),
                                            "; ".join("(%d)%%Z" % x for x in (nums or [])))


def prog_eval(workdir, fn, cases, case_type, nshards=None, _retry=True):
    """cases: list of Corr/C01p case strings -> (ok, {index: code}, log).
    Another check running at the same time may have rebuilt a generated table (Gen/*.vo) after this
    check's proof stage: on `inconsistent assumptions` the Corr target is rebuilt under the lock and
    the evaluation repeated once."""
    if not cases:
        return True, {}, ""
    if _retry:
        ok, bad, log = prog_eval(workdir, fn, cases, case_type, nshards, _retry=False)
        if not ok and "inconsistent assumptions" in log:
            with vlib.Lock("coq"):
                vlib.coq_make(["Corr/C01p.vo"])
            return prog_eval(workdir, fn, cases, case_type, nshards, _retry=False)
        return ok, bad, log
    idx = list(range(len(cases)))
    shards = vlib.shard(idx, nshards or vlib.NCPU)
    hdr = (vlib.COQ_PRINT_HDR + "From Coq Require Import String List ZArith NArith.\nImport ListNotations.\n"
           "From S4.Corr Require Import C01p.\nOpen Scope N_scope.\nOpen Scope string_scope.\n")
    texts = [hdr + "Definition cases : list %s := [\n%s\n].\nEval vm_compute in (%s cases).\n" % (
        case_type, ";\n".join(cases[i] for i in sh), fn) for sh in shards]
    res = vlib.coq_eval_shards(workdir, texts)
    bad = {}
    for sh, (rc, out) in zip(shards, res):
        pr = vlib.parse_eval_pairs(out) if rc == 0 else None
        if pr is None:
            return False, bad, out
        for k, c in pr:
            bad[sh[k]] = c
    return True, bad, ""


def prog_describe(inp):
    return dict(argv=prog_argv(inp), env=prog_env(inp),
                window_ns=[inp["lo"], inp["hi"]], blocksz=inp["bs"] or 65536,
                sources=[dict(name=s["name"], kind=s.get("kind", "text"), container=s["container"], messages=len(s["msgs"]), final_newline=s.get("final_nl"),
                              in_window=sum(1 for m in s["msgs"] if prog_in_window(inp, m["inst"])),
                              multi_line=sum(1 for m in s["msgs"] if m["cont"])) for s in inp["sources"]])


def prog_save_failure(prop, seed, inp, plan, n, extra=None):
    """input files + expected stdout / summary numbers under replays/<prop>-inputs/<seed>-p<n>"""
    import json, shutil
    dest = os.path.join(vlib.ROOT, "replays", "%s-inputs" % prop, "%d-p%d" % (seed, n))
    if os.path.isdir(dest):
        shutil.rmtree(dest)
    os.makedirs(dest)
    ind = os.path.join(dest, "in")
    shutil.copytree(inp["dir"], ind)
    exp, nums, _ = prog_expected(inp, ind)
    if exp is None:                    # mixed kinds: the expected output is what the unchanged tree prints (recorded by the caller)
        exp = (extra or {}).get("expected_stdout_bytes")
    if exp is not None:
        with open(os.path.join(dest, "EXPECTED_STDOUT"), "wb") as f:
            f.write(exp)
    if extra and "expected_stdout_bytes" in extra:
        extra = {k: v for k, v in extra.items() if k != "expected_stdout_bytes"}
    c = dict(dir=dest, argv=prog_argv(inp, ind), plan=plan, env=prog_env(inp), describe=prog_describe(inp),
             expect_summary=(nums if inp["summary"] else None), whole_invocation=True, colour=bool(inp.get("colour")))
    if extra:
        c.update(extra)
    return c


def prog_replay_one(c):
    """re-run a saved whole-invocation failure; True when it still fails"""
    env = dict(c.get("env") or {"TZ": "UTC"})
    if c.get("plan"):
        env["S4_VERIF_PLAN"] = c["plan"]
    rc, out, err = vlib.run_s4(c["argv"], timeout=60, env=env)
    pe = os.path.join(c["dir"], "EXPECTED_STDOUT")
    if not os.path.exists(pe):
        print("replay whole invocation rc=%d: no expected stdout recorded (mixed source kinds: evaluate Corr/C01p.spec_bad on the case); argv=%s" % (rc, " ".join(c["argv"])))
        return rc != 0
    expb = open(pe, "rb").read()
    if c.get("colour"):                # expected bytes are the specification's with SGR groups abstracted (ESC + class digit)
        import print_util
        out = print_util.abstract_sgr(out) or b""
    same = rc == 0 and out == expb
    what = "stdout %s expected (%d vs %d bytes)" % ("==" if same else "!=", len(out), len(expb))
    if same and c.get("expect_summary"):
        got = prog_summary_nums(err)
        same = got == c["expect_summary"]
        what += "; summary [bytes, lines, syslines, first, last] %s expected (%r vs %r)" % ("==" if same else "!=", got, c["expect_summary"])
    print("replay whole invocation rc=%d %s  argv=%s" % (rc, what, " ".join(c["argv"])))
    return not same


# ----------------------------------------------------------------------------- whole invocations, MIXED source kinds
# (second stage of work package H) extra sources next to the text files of prog_input:
#   records   utmp / lastlog files synthesised by checks/c08_util.py (records in ANY stored order, equal
#             times, a null record, an invalid 0xFF record) and the wtmp fixture of /repo/logs
#   yearless  syslog notation without a year ("Dec 31 23:59:58 host ..."), file mtime set; crossing a
#             year boundary
#   journal   the journal fixture of /repo/logs (entries = what a probe run of s4 on that file alone prints)
#   evtx      the evtx fixture, always with a window that selects at most a dozen events
# The python rendering is not used for these invocations (prog_expected returns None): the verdict is
# Program.program_spec / program_m evaluated by coqc.
JOURNAL_OUTPUTS = ["short", "short-precise", "short-iso", "short-iso-precise", "short-full", "short-monotonic", "short-unix",
                   "verbose", "export", "cat"]          # order of JournalRender.all_outputs
_JREAD = {}


def journal_entries(path, scratch):
    """the entries of a journal fixture as libsystemd enumerates them (checks/c09.sd_read on the
    decompressed file): [(receive time us, cursor, monotonic | None, [(key, value)])]"""
    if path in _JREAD:
        return _JREAD[path]
    import c09, bz2
    raw = path
    if not path.endswith(".journal"):
        ext = path.rsplit(".", 1)[1]
        data = open(path, "rb").read()
        try:
            data = {"gz": gzip.decompress, "bz2": bz2.decompress, "xz": lzma.decompress}[ext](data)
        except KeyError:
            _JREAD[path] = None
            return None
        os.makedirs(os.path.join(scratch, "_journal"), exist_ok=True)
        raw = os.path.join(scratch, "_journal", os.path.basename(path)[:-len(ext) - 1])
        with open(raw, "wb") as f:
            f.write(data)
    try:
        ents = []
        for (t, cur, mono, objs) in c09.sd_read(raw):
            pairs = []
            for d in objs:
                k, _, v = d.partition(b"=")
                pairs.append((k, v))
            ents.append((t, cur, mono, pairs))
    except OSError:
        ents = None
    _JREAD[path] = ents
    return ents


MONTHS = ["Jan", "Feb", "Mar", "Apr", "May", "Jun", "Jul", "Aug", "Sep", "Oct", "Nov", "Dec"]
RECORD_LAYOUTS = [("Fs_Linux_x86_Utmpx", ["wtmp", "utmp", "btmp", "utmpx"]), ("Fs_Linux_x86_Lastlog", ["lastlog"])]
_PROBE = {}


def probe_fixture(path, tz="UTC"):
    """the messages of one evtx / journal file as s4 prints them alone: [(instant ns, text bytes)].
    The text of a journal entry (`short` output) shows the local time: probed under the TZ of the invocation."""
    key = (path, tz)
    if key in _PROBE:
        return _PROBE[key]
    path_, path = path, key
    rc, out, err = vlib.run_s4(["--color", "never", "-u", "-d", "%s%.9f", "--separator=" + SEP_ARG, path_], timeout=120, env={"TZ": tz})
    res = []
    if rc == 0:
        chunks = out.split(SEP_B)
        for ch in chunks[:-1]:
            text = bytearray()
            inst = None
            for ln in ch.split(b"\n"):
                if ln == b"" :
                    continue
                m = DT_RE.match(ln)
                if not m:
                    res = None
                    break
                if inst is None:
                    inst = int(m.group(1)) * 10**9 + int(m.group(2))
                text += ln[m.end():] + b"\n"
            if res is None:
                break
            res.append((inst, bytes(text)))
    else:
        res = None
    _PROBE[path] = res
    return res


def yearless_source(rng, sid, off_s):
    """syslog lines without a year around 2019-12-31 / 2020-01-01 (local time of the fallback zone off_s)"""
    n = rng.choice([2, 3, 5, 8, 12])
    t = EPOCH0 - rng.choice([43210, 43205, 86400 + 30, 3 * 86400, 40 * 86400])      # local seconds of the first message
    msgs = []
    for k in range(n):
        t += rng.choice([0, 0, 1, 1, 2, 59, 3600, 43200, 86400])
        loc = datetime.datetime(1970, 1, 1) + datetime.timedelta(seconds=t)
        head = "%s %2d %02d:%02d:%02d host s%02dm%04d %s" % (MONTHS[loc.month - 1], loc.day, loc.hour, loc.minute, loc.second, sid, k, WORDS[(sid + k) % len(WORDS)])
        cont = 0 if rng.random() < 0.7 else rng.randrange(1, 3)
        lines = [head] + ["    continued %s" % WORDS[(k + c) % len(WORDS)] for c in range(cont)]
        msgs.append(dict(inst=(t - off_s) * 10**9, lines=lines, cont=cont, ymd=(loc.month, loc.day, (loc.hour * 3600 + loc.minute * 60 + loc.second) * 10**9)))
    last_local = t
    mtime = last_local - off_s + rng.choice([0, 5, 3600, 86400, 5 * 86400])
    return dict(sid=sid, kind="yearless", container=rng.choice(["plain", "plain", "gz"]), msgs=msgs, final_nl=rng.random() < 0.6,
                mtime=mtime, off=off_s, name="sys%02d.log" % sid)


def records_source(rng, sid):
    import c08_util as U
    lays, _ = U.ref_layouts()
    lname, names = rng.choice(RECORD_LAYOUTS)
    lay = lays[lname]
    n = rng.choice([1, 2, 3, 5, 8])
    recs = []
    for k in range(n):
        r = rng.random()
        sec = EPOCH0 + rng.choice([0, 0, 1, 1, 2, 60, -1])
        usec = rng.choice([0, 0, 1, 500, 999999]) if lay["usec_len"] else 0
        if r < 0.1:
            recs.append(((0, 0), "zero"))
        elif r < 0.17:
            recs.append(((0, 0), "ff"))
        else:
            recs.append(((sec, usec), None))
    if not any(nk is None for _, nk in recs):      # a file of null / invalid entries only has no detectable layout
        recs[rng.randrange(len(recs))] = ((EPOCH0 + 1, 0), None)
    fname = rng.choice(names)
    return dict(sid=sid, kind="records", container="plain", msgs=[], name=fname if sid == 0 else "r%d-%s" % (sid, fname),
                layout=lname, hint=U.KINDS.index(U.NAME_KIND[fname]), data=U.build_file(lay, recs),
                insts=[sec * 10**9 + usec * 1000 for (sec, usec), nk in recs if nk is None], fname=fname)


def prog_input_mixed(rng, idx, scratch):
    inp = prog_input(rng, idx, scratch)
    off_s = inp["zone"][1] if (inp["zone"] and inp["zone"][0] == "-l") else 0
    fams = fixture_families()
    extra = []
    nsid = len(inp["sources"])
    for _ in range(rng.choice([1, 1, 2, 3])):
        r = rng.random()
        if r < 0.35:
            extra.append(records_source(rng, nsid))
        elif r < 0.65:
            extra.append(yearless_source(rng, nsid, off_s))
        elif r < 0.8 and "journal" in fams:
            p = rng.choice([x for x in fams["journal"] if x.rsplit(".", 1)[1] in ("gz", "bz2", "xz", "journal")] or fams["journal"])
            extra.append(dict(sid=nsid, kind="journal", container="fixture", msgs=[], path=p, name=os.path.basename(p)))
        elif r < 0.9 and "evtx" in fams:
            p = rng.choice(fams["evtx"])
            extra.append(dict(sid=nsid, kind="evtx", container="fixture", msgs=[], path=p, name=os.path.basename(p)))
        elif "utmp" in fams:
            p = [x for x in fams["utmp"] if x.endswith(".wtmp")]
            if p:
                extra.append(dict(sid=nsid, kind="records", container="plain", msgs=[], name="fx%d.wtmp" % nsid, layout="Fs_Linux_x86_Utmpx",
                                  hint=4, data=open(p[0], "rb").read(), insts=[], fname="wtmp"))
        nsid += 1
    if rng.random() < 0.25:
        inp["sources"] = []                        # no year-bearing text file at all
    d = inp["dir"]
    for s in extra:
        if s["kind"] == "records":
            # the name selects the reader (C16): keep the system name as the file name inside an own directory
            sub = os.path.join(d, "rec%d" % s["sid"])
            os.makedirs(sub, exist_ok=True)
            s["relname"] = os.path.join("rec%d" % s["sid"], s["fname"])
            s["name"] = s["fname"]
            with open(os.path.join(d, s["relname"]), "wb") as f:
                f.write(s["data"])
        elif s["kind"] == "yearless":
            lines = [ln for m in s["msgs"] for ln in m["lines"]]
            data = "\n".join(lines).encode() + (b"\n" if s["final_nl"] else b"")
            s["data"] = data
            if s["container"] == "gz":
                s["name"] += ".gz"
                with gzip.GzipFile(os.path.join(d, s["name"]), "wb", mtime=s["mtime"]) as f:
                    f.write(data)
            else:
                with open(os.path.join(d, s["name"]), "wb") as f:
                    f.write(data)
            os.utime(os.path.join(d, s["name"]), (s["mtime"], s["mtime"]))
            s["relname"] = s["name"]
        elif s["kind"] == "journal":
            s["entries"] = journal_entries(s["path"], scratch)
            s["relname"] = None
        else:
            s["msgs_probe"] = probe_fixture(s["path"], prog_env(inp)["TZ"])
            s["relname"] = None
    pos = list(range(len(inp["sources"]) + len(extra)))
    allsrc = inp["sources"] + extra
    rng.shuffle(allsrc)
    inp["sources"] = allsrc
    inp["mixed"] = True
    inp["jout"] = rng.randrange(len(JOURNAL_OUTPUTS)) if any(s["kind"] == "journal" for s in allsrc) else None
    # the window: around the instants of generated sources; an event log is always windowed to few events
    ev = [s for s in allsrc if s["kind"] == "evtx" and s.get("msgs_probe")]
    if ev:
        ts = sorted(t for t, _ in ev[0]["msgs_probe"])
        if rng.random() < 0.4:
            # from before everything up to one of the first events
            hi = (ts[rng.randrange(0, min(8, len(ts)))] // 1000 + rng.choice([0, 1])) * 1000
            lo = min([ts[0]] + [m["inst"] for s in allsrc for m in s["msgs"]] + [t for s in allsrc for t in s.get("insts", [])])
            lo = (lo // 1000) * 1000 if rng.random() < 0.7 else None
        else:
            k = rng.randrange(0, max(1, len(ts) - 8))
            lo = (ts[k] // 1000) * 1000
            hi = (ts[min(len(ts) - 1, k + rng.randrange(0, 7))] // 1000 + 1) * 1000
            while sum(1 for t in ts if lo <= t <= hi) > 12 and hi > lo:
                hi = lo + (hi - lo) // 2
        inp["lo"], inp["hi"] = lo, hi
    else:
        allinst = sorted(set([m["inst"] for s in allsrc for m in s["msgs"]] + [t for s in allsrc for t in s.get("insts", [])]))
        inp["lo"] = inp["hi"] = None
        if allinst and rng.random() < 0.5:
            def bound():
                return (rng.choice(allinst) // 1000 + rng.choice([0, 0, 0, 1, -1, 1000000, -1000000])) * 1000
            if rng.random() < 0.7:
                inp["lo"] = bound()
            if inp["lo"] is None or rng.random() < 0.6:
                inp["hi"] = bound()
            if inp["lo"] is not None and inp["hi"] is not None and inp["hi"] < inp["lo"]:
                inp["lo"], inp["hi"] = inp["hi"], inp["lo"]
    return inp


def prog_path(inp, s, d=None):
    d = d or inp["dir"]
    if s.get("path"):
        return s["path"]
    return os.path.join(d, s.get("relname") or s["name"])


def prog_spec_stdout(workdir, case):
    """stdout of Program.program_spec for one Corr/C01p case (bytes), or None"""
    import re
    hdr = (vlib.COQ_PRINT_HDR + "From Coq Require Import String List ZArith NArith.\nImport ListNotations.\n"
           "From S4.Corr Require Import C01p.\nOpen Scope N_scope.\nOpen Scope string_scope.\n")
    text = hdr + "Definition c : spec_case := %s.\nEval vm_compute in (spec_stdout c).\n" % case
    res = vlib.coq_eval_shards(workdir, [text])
    rc, out = res[0]
    if rc != 0:
        return None
    m = re.search(r"=\s*(\[.*?\])\s*:\s*\S*(?:bytes|list)", out, flags=re.S)
    if not m:
        return None
    return bytes(int(x) for x in re.findall(r"(\d+)%N", m.group(1))) if "%N" in m.group(1) else bytes(int(x) for x in re.findall(r"\d+", m.group(1)))


def prog_spec_nums(workdir, case):
    """summary numbers of Program.program_spec for one Corr/C01p case, or None"""
    import re
    hdr = (vlib.COQ_PRINT_HDR + "From Coq Require Import String List ZArith NArith.\nImport ListNotations.\n"
           "From S4.Corr Require Import C01p.\nOpen Scope N_scope.\nOpen Scope string_scope.\n")
    text = hdr + "Definition c : spec_case := %s.\nEval vm_compute in (spec_nums c).\n" % case
    rc, out = vlib.coq_eval_shards(workdir, [text])[0]
    m = re.search(r"=\s*(\[.*?\])\s*:\s*list", out, flags=re.S) if rc == 0 else None
    return [int(x) for x in re.findall(r"-?\d+", m.group(1).replace("%Z", ""))] if m else None
