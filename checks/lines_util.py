"""Shared by checks/c02.py and checks/c12.py: log-file generators (dated head lines in ONE notation,
continuation lines that no pattern can date), the python transliteration of Spec/LinesSpec.v,
the known-finding class predicates of the block-zero acceptance gate, the harness session
driver and the writers of Coq case files for Corr/C02.v."""
import os, re
import vlib

EPOCH0 = 1577836800          # 2020-01-01T00:00:00Z
TSLEN = 19                   # len("2020-01-01T00:00:00")
SYSLOG_SZ_MAX = 8096         # src/common.rs (checked against the source by consts_from_repo)
BLOCKSZ_DEF = 0x10000


def consts_from_repo():
    """read the constants the class predicates use from the current source tree"""
    out = {}
    src = open(os.path.join(vlib.REPO, "src", "common.rs")).read()
    m = re.search(r"pub const SYSLOG_SZ_MAX: usize = (\d+);", src)
    out["SYSLOG_SZ_MAX"] = int(m.group(1)) if m else None
    m = re.search(r"pub const FILE_TOO_SMALL_SZ: FileSz = (\d+);", src)
    out["FILE_TOO_SMALL_SZ"] = int(m.group(1)) if m else None
    src = open(os.path.join(vlib.REPO, "src", "readers", "blockreader.rs")).read()
    m = re.search(r"pub const BLOCKSZ_DEF: usize = (0x[0-9A-Fa-f]+|\d+);", src)
    out["BLOCKSZ_DEF"] = int(m.group(1), 0) if m else None
    m = re.search(r"pub const BLOCKSZ_MAX: BlockSz = (0x[0-9A-Fa-f]+|\d+);", src)
    out["BLOCKSZ_MAX"] = int(m.group(1), 0) if m else None
    src = open(os.path.join(vlib.REPO, "src", "readers", "syslogprocessor.rs")).read()
    m = re.search(r"cfg\(not\(any\(debug_assertions, test\)\)\)\]\s*pub const BLOCKSZ_MIN: BlockSz = (0x[0-9A-Fa-f]+|\d+);", src)
    out["SP_BLOCKSZ_MIN"] = int(m.group(1), 0) if m else None
    return out


def ts(i):
    """the notation used for every dated line of a file: ISO, whole seconds, no zone"""
    s = i % 60; m = (i // 60) % 60; h = (i // 3600) % 24; d = 1 + (i // 86400) % 28
    return b"2020-01-%02dT%02d:%02d:%02d" % (d, h, m, s)


def instant(i):
    s = i % 60; m = (i // 60) % 60; h = (i // 3600) % 24; d = (i // 86400) % 28
    return EPOCH0 + d * 86400 + h * 3600 + m * 60 + s


# bytes allowed in bodies: everything except NL and digits; one isolated digit now and then
BODY = bytes(b for b in range(256) if b != 10 and not (48 <= b <= 57))
PLAIN = b"abcdefghijklmnopqrstuvwxyz ABCDEF.,:;-_/[]()"


def body(rng, n, wild):
    if n <= 0:
        return b""
    alpha = BODY if wild else PLAIN
    out = bytearray(rng.choice(alpha) for _ in range(n))
    if n >= 3 and rng.random() < 0.3:           # an isolated digit
        k = rng.randrange(1, n - 1)
        out[k] = 48 + rng.randrange(10)
        for j in (k - 1, k + 1):
            if 48 <= out[j] <= 57:
                out[j] = 120
    return bytes(out)


def adversarial_len(rng, bs):
    r = rng.random()
    k = rng.choice([1, 1, 2, 3])
    cands = [1, 2, bs - 1, bs, bs + 1, k * bs - 1, k * bs, k * bs + 1, bs // 2, 2 * bs + 3]
    if r < 0.6:
        return max(1, rng.choice(cands))
    return rng.randrange(1, max(2, 3 * bs))


def gen_file(rng, bs, nmsg=None, wild=True, lead=None, final_nl=None, maxlen=None, crlf=None):
    """a log built from dated head lines + continuation lines whose lengths are chosen against
    the block size bs.  Returns (bytes, table {line bytes: instant}, list of line bytes)."""
    nmsg = rng.choice([1, 1, 2, 3, 4, 6]) if nmsg is None else nmsg
    lead = rng.choice([0, 0, 0, 1, 2]) if lead is None else lead
    final_nl = (rng.random() < 0.6) if final_nl is None else final_nl
    crlf = (rng.random() < 0.15) if crlf is None else crlf
    eol = b"\r\n" if crlf else b"\n"
    lines, table = [], {}
    cap = (lambda n: n) if maxlen is None else (lambda n: max(1, min(n, maxlen)))
    for _ in range(lead):
        n = cap(adversarial_len(rng, bs))
        lines.append(body(rng, n - 1, wild) + b"\n" if n > 1 else b"\n")
    t = rng.randrange(0, 1000)
    for _ in range(nmsg):
        t += rng.choice([0, 1, 1, 2, 61])
        n = cap(adversarial_len(rng, bs))
        stamp = ts(t)
        rest = max(0, n - len(stamp) - len(eol))
        # " |" keeps a random body from being read as a zone name / fraction of the timestamp
        sep = b"" if rest < 1 else (b" " if rest == 1 else b" |")
        head = stamp + sep + body(rng, rest - len(sep), wild) + eol
        lines.append(head)
        table[head] = instant(t)
        for _ in range(rng.choice([0, 0, 1, 1, 2, 3])):
            n = cap(adversarial_len(rng, bs))
            if n == 1 or rng.random() < 0.1:
                lines.append(b"\n")
            else:
                lines.append(body(rng, n - len(eol), wild) + eol if n > len(eol) else b"\n")
    if not final_nl and lines:
        last = lines[-1]
        cut = last[:-len(eol)] if (last.endswith(eol) and len(last) > len(eol)) else last[:-1]
        if cut:
            if last in table and cut not in table:
                table[cut] = table[last]
                if lines.count(last) == 1:
                    del table[last]
            lines[-1] = cut
    # a continuation line must not equal a dated line (cannot: dated lines contain digit pairs)
    return b"".join(lines), table, lines



def nul_heavy_files(rng, n_random=6):
    """valid logs whose first 128 bytes are mostly NUL bytes: a short first dated head line followed by
    continuation lines of NUL bytes.  blockzero_analysis_bytes rejects a file only when the first
    min(128, |block zero|) bytes are ALL zero; every file here begins with a timestamp, so it is on the
    accepted side at every block size >= 64.  Returns [(bytes, table, note)]."""
    out = []

    def build(first_conts, later=None, t0=0, prefix_msgs=0, bare=False):
        lines, tab = [], {}
        t = t0
        for k in range(prefix_msgs):             # control: ordinary messages first (>= 128 bytes)
            h = ts(t) + b" |ordinary message number %c with plain text\n" % (97 + k)
            lines.append(h); tab[h] = instant(t); t += 1
            lines.append(b" plain continuation line\n")
        h = ts(t) + (b"\n" if bare else b" |a\n")
        lines.append(h); tab[h] = instant(t); t += 1
        lines += first_conts
        for conts in (later or [[b" tail\n"], [b"\x00" * 7 + b"\n", b"x\n"]]):
            h = ts(t) + b" |m\n"
            lines.append(h); tab[h] = instant(t); t += 1
            lines += conts
        return b"".join(lines), tab

    # NUL run directly after the first line
    for k in (65, 66, 80, 104, 105, 200, 700):
        out.append(build([b"\x00" * k + b"\n"]) + ("nul-run-%d-after-first-line" % k,))
    # NULs spread over several short continuation lines
    for r in (1, 3, 7, 12):
        out.append(build([b"\x00" * r + b"\n"] * (130 // (r + 1) + 2)) + ("nul-spread-lines-of-%d" % r,))
    # NUL share of the first 128 bytes: 50 %, 51 %, and the largest share a 20/23-byte head line allows
    for share, bare in ((64, False), (65, False), (66, False), (100, False), (104, False), (107, True)):
        hl = 20 if bare else 23
        room = 128 - hl                        # bytes of the first 128 after the head line
        nul = min(share, room - 1)
        filler = room - 1 - nul
        conts = [b"\x00" * nul + b"y" * filler + b"\n", b"after the first bytes\n"]
        f, tab = build(conts, bare=bare)
        assert f[:128].count(0) == nul
        out.append((f, tab, "nul-share-%d-of-128" % nul))
    # 90 % NUL among the bytes that follow the head line, mixed with other bytes, several lines
    conts = []
    for i in range(12):
        conts.append(bytes(0 if (i * 10 + j) % 10 else 122 for j in range(10)) + b"\n")
    out.append(build(conts) + ("nul-90pct-after-head-mixed",))
    # control: the same NUL-heavy message placed later in the file
    for k in (65, 104, 200):
        out.append(build([b"\x00" * k + b"\n"], prefix_msgs=3) + ("control-nul-run-%d-later-in-file" % k,))
    # no final newline, CRLF head, NUL run as the last line
    f, tab = build([b"\x00" * 90 + b"\n"], later=[[b"\x00" * 40]])
    out.append((f, tab, "nul-run-and-nul-last-line-without-newline"))
    # random members of the class
    for _ in range(n_random):
        conts, total = [], 0
        while total < 110:
            r = rng.choice([1, 2, 5, 9, 17, 33, 64, 70, 104])
            mix = rng.random() < 0.3
            l = bytes((0 if rng.random() < 0.85 else rng.choice(PLAIN)) for _ in range(r)) if mix else b"\x00" * r
            conts.append(l + b"\n"); total += r + 1
        f, tab = build(conts, t0=rng.randrange(0, 500), bare=rng.random() < 0.3)
        if f[:128].count(0) >= 65:
            out.append((f, tab, "nul-heavy-random(%d NUL in first 128)" % f[:128].count(0)))
    for f, tab, note in out:
        assert not all(b == 0 for b in f[:64]) and py_printed(f, tab)
    return out

# ----------------------------------------------------------------------------- python spec

def py_lines(f):
    out, i = [], 0
    while i < len(f):
        j = f.find(b"\n", i)
        j = len(f) - 1 if j < 0 else j
        out.append(f[i:j + 1])
        i = j + 1
    return out


def py_groups(f, table):
    """(leading undated lines, [(instant, [lines])])"""
    lead, gs = [], []
    for l in py_lines(f):
        if l in table:
            gs.append((table[l], [l]))
        elif gs:
            gs[-1][1].append(l)
        else:
            lead.append(l)
    return lead, gs


def py_printed(f, table):
    _, gs = py_groups(f, table)
    s = b"".join(b"".join(g[1]) for g in gs)
    if s and not s.endswith(b"\n"):
        s += b"\n"
    return s


# ----------------------------------------------------------------------------- gate classes

def first_dated(f, table):
    """(begin offset, end offset inclusive) of the first dated line, or None"""
    off = 0
    for l in py_lines(f):
        if l in table:
            return off, off + len(l) - 1
        off += len(l)
    return None


def gate_classes(f, table, bs):
    """known-finding predicates (decidable from the case) that hold of file f at block size bs.
    b0 = size of block zero = min(bs, |f|)."""
    cls = []
    b0 = min(bs, len(f))
    fd = first_dated(f, table)
    if fd is None:
        return cls
    beg, end = fd
    if beg + TSLEN > b0:
        cls.append("first_timestamp_not_within_block_zero")
    elif end + 1 > b0:
        cls.append("first_dated_line_not_complete_within_block_zero")
    if b0 >= SYSLOG_SZ_MAX:
        off, nlines, ndated = 0, 0, 0
        for l in py_lines(f):
            if off >= b0:
                break
            nlines += 1                       # complete or partial line that begins in block zero
            if l in table and off + len(l) <= b0:
                ndated += 1
            off += len(l)
        if nlines < 3 or ndated < 2:
            cls.append("blockzero_count_minimum_not_met")
    return cls


# ----------------------------------------------------------------------------- harness session

class Session:
    """accumulates commands for harness c02; run() returns one answer per command"""
    def __init__(self):
        self.cmds = []

    def add(self, c):
        self.cmds.append(c)
        return len(self.cmds) - 1

    def run(self, scratch, timeout=900):
        out, err = vlib.harness("c02", self.cmds, timeout=timeout, args=[scratch])
        if out is None or len(out) != len(self.cmds):
            return None, (err or "") + " (got %s answers for %d commands)" % (None if out is None else len(out), len(self.cmds))
        return out, ""


def parse_L(s):
    p = s.split("\t")
    if p[1] == "Done":
        return None
    if p[1] != "Found":
        return ("ERR", p[1])
    return tuple(int(x) for x in p[2:8]) + (p[8] if len(p) > 8 else "",)


def parse_S(s):
    p = s.split("\t")
    if p[1] == "Done":
        return None
    if p[1] != "Found":
        return ("ERR", p[1])
    return tuple(int(x) for x in p[2:7]) + (p[7] if len(p) > 7 else "",)


def parse_items(p):
    items = []
    for it in p:
        if not it:
            continue
        a = it.split(",")
        items.append((int(a[0]), int(a[1]), int(a[2]), int(a[3]), a[4] if len(a) > 4 else ""))
    return items


def parse_R(s):
    p = s.split("\t")
    if p[1] != "OK":
        return ("ERR", p[1])
    return parse_items(p[3:])


def parse_D(s):
    p = s.split("\t")
    return p[1], parse_items(p[3:])


# ----------------------------------------------------------------------------- Coq case text

COQ_HDR = vlib.COQ_PRINT_HDR + ("From Coq Require Import String List NArith ZArith.\nImport ListNotations.\n"
                                "From S4.Corr Require Import C02.\nOpen Scope string_scope.\nOpen Scope N_scope.\n")


def coq_table(table):
    return "[" + "; ".join('("%s", %d%%Z)' % (k.hex(), v) for k, v in sorted(table.items())) + "]"


def coq_opL(fo, r):
    if r is None:
        return "OpL %d None" % fo
    return 'OpL %d (Some (%d, %d, %d, %d, %d, %d, "%s"))' % ((fo,) + r)


def coq_opS(fo, r):
    if r is None:
        return "OpS %d None" % fo
    return 'OpS %d (Some (%d, %d, %d, %d, %d%%Z, "%s"))' % ((fo,) + r)


def coq_opR(items):
    return "OpR [" + "; ".join('(%d, %d, %d, %d%%Z, "%s")' % it for it in items) + "]"


def coq_model_cases(cases):
    """cases: list of (bs, file bytes, table, [op text])"""
    rows = ['(%d, "%s", %s, [%s])' % (bs, f.hex(), coq_table(tab), "; ".join(ops)) for bs, f, tab, ops in cases]
    return COQ_HDR + "Definition cases : list case := [\n%s\n].\nEval vm_compute in (model_bad cases).\n" % ";\n".join(rows)


def coq_printed_cases(cases):
    """cases: list of (file bytes, table, stdout bytes)"""
    rows = ['("%s", %s, "%s")' % (f.hex(), coq_table(tab), o.hex()) for f, tab, o in cases]
    return COQ_HDR + "Definition cases : list (string * list (string * Z) * string) := [\n%s\n].\nEval vm_compute in (spec_printed_bad cases).\n" % ";\n".join(rows)


def coq_spec_line_cases(cases):
    """cases: (file, fo, None | (fo_next, beg, end, hex))"""
    rows = []
    for f, fo, r in cases:
        rr = "None" if r is None else 'Some (%d, %d, %d, "%s")' % r
        rows.append('("%s", %d, %s)' % (f.hex(), fo, rr))
    return COQ_HDR + "Definition cases : list (string * N * option (N * N * N * string)) := [\n%s\n].\nEval vm_compute in (spec_find_line_bad cases).\n" % ";\n".join(rows)


def coq_spec_sysline_cases(cases):
    """cases: (file, table, fo, None | (fo_next, beg, dt, hex))"""
    rows = []
    for f, tab, fo, r in cases:
        rr = "None" if r is None else 'Some (%d, %d, %d%%Z, "%s")' % r
        rows.append('("%s", %s, %d, %s)' % (f.hex(), coq_table(tab), fo, rr))
    return COQ_HDR + "Definition cases : list (string * list (string * Z) * N * option (N * N * Z * string)) := [\n%s\n].\nEval vm_compute in (spec_find_sysline_bad cases).\n" % ";\n".join(rows)


def coq_spec_groups_cases(cases):
    """cases: (file, table, [(dt, hex)])"""
    rows = ['("%s", %s, [%s])' % (f.hex(), coq_table(tab), "; ".join('(%d%%Z, "%s")' % it for it in items))
            for f, tab, items in cases]
    return COQ_HDR + "Definition cases : list (string * list (string * Z) * list (Z * string)) := [\n%s\n].\nEval vm_compute in (spec_groups_bad cases).\n" % ";\n".join(rows)


GATE_CODES = {"FileOk": 0, "FileErrEmpty": 1, "FileErrTooSmall": 2, "FileErrNullBytes": 3,
              "FileErrNoLinesFound": 4, "FileErrNoSyslinesFound": 5}


def coq_gate_cases(cases):
    """cases: (bs, file, table, impl code)"""
    rows = ['(%d, "%s", %s, %d)' % (bs, f.hex(), coq_table(tab), code) for bs, f, tab, code in cases]
    return COQ_HDR + "Definition cases : list (N * string * list (string * Z) * N) := [\n%s\n].\nEval vm_compute in (gate_bad cases).\n" % ";\n".join(rows)


def eval_shards(ctx, workdir, builder, cases, what, per_shard=None):
    """run builder(case chunk) texts through coqc; returns list of (case index, code) or None"""
    if not cases:
        return []
    idx = list(range(len(cases)))
    shards = vlib.shard(idx, vlib.NCPU if per_shard is None else max(1, (len(idx) + per_shard - 1) // per_shard))
    texts = [builder([cases[i] for i in sh]) for sh in shards]
    res = vlib.coq_eval_shards(workdir, texts)
    bad = []
    for sh, (rc, out) in zip(shards, res):
        pairs = vlib.parse_eval_pairs(out) if rc == 0 else None
        if pairs is None:
            ctx.obligation_broken("correspondence" if "model" in what else "spec-evaluation", what + " (coqc on cases)", out)
            return None
        for k, c in pairs:
            bad.append((sh, k, c))
    return bad


# ----------------------------------------------------------------------------- the binary

def run_binary(path, bs=None, timeout=120):
    args = ["--color", "never"]
    if bs is not None:
        args += ["--blocksz", str(bs)]
    rc, out, err = vlib.run_s4(args + [path], timeout=timeout, env={"TZ": "UTC"})
    return rc, out, err


WITNESS = {}


def witnesses():
    """the recorded witness inputs of the three gate findings"""
    if WITNESS:
        return WITNESS
    # F3a: five 121-byte lines dated at column 0, block size 64
    lines = [ts(i) + b" " + b"x" * (121 - TSLEN - 2) + b"\n" for i in range(5)]
    WITNESS["F3a"] = (b"".join(lines), {l: instant(i) for i, l in enumerate(lines)}, 64)
    # F3b: a 100-byte undated first line, block size 64
    d = [ts(i) + b" hello\n" for i in range(5)]
    WITNESS["F3b"] = (b"u" * 99 + b"\n" + b"".join(d), {l: instant(i) for i, l in enumerate(d)}, 64)
    # F3c: two 4050-byte dated lines: printed at 4096, rejected when block zero >= 8096 bytes
    l2 = [ts(i) + b" " + b"x" * (4050 - TSLEN - 2) + b"\n" for i in range(2)]
    WITNESS["F3c"] = (b"".join(l2), {l: instant(i) for i, l in enumerate(l2)}, BLOCKSZ_DEF)
    return WITNESS
