"""Shared by checks/c02.py and checks/c12.py: log-file generators (dated head lines in ONE notation,
continuation lines that no pattern can date), the python transliteration of Spec/LinesSpec.v,
the known-finding class predicates of the block-zero acceptance gate, the harness session
driver and the writers of Coq case files for Corr/C02.v."""
import os, re
import vlib

EPOCH0 = 1577836800          # 2020-01-01T00:00:00Z
TSLEN = 19                   # len("2020-01-01T00:00:00")
SYSLOG_SZ_MAX = 8096         # src/common.rs (checked against the source by consts_from_repo)
BLOCKSZ_DEF = 0x10000


def consts_from_repo():
    """read the constants the class predicates use from the current source tree"""
    out = {}
    src = open(os.path.join(vlib.REPO, "src", "common.rs")).read()
    m = re.search(r"pub const SYSLOG_SZ_MAX: usize = (\d+);", src)
    out["SYSLOG_SZ_MAX"] = int(m.group(1)) if m else None
    m = re.search(r"pub const FILE_TOO_SMALL_SZ: FileSz = (\d+);", src)
    out["FILE_TOO_SMALL_SZ"] = int(m.group(1)) if m else None
    src = open(os.path.join(vlib.REPO, "src", "readers", "blockreader.rs")).read()
    m = re.search(r"pub const BLOCKSZ_DEF: usize = (0x[0-9A-Fa-f]+|\d+);", src)
    out["BLOCKSZ_DEF"] = int(m.group(1), 0) if m else None
    m = re.search(r"pub const BLOCKSZ_MAX: BlockSz = (0x[0-9A-Fa-f]+|\d+);", src)
    out["BLOCKSZ_MAX"] = int(m.group(1), 0) if m else None
    src = open(os.path.join(vlib.REPO, "src", "readers", "syslogprocessor.rs")).read()
    m = re.search(r"cfg\(not\(any\(debug_assertions, test\)\)\)\]\s*pub const BLOCKSZ_MIN: BlockSz = (0x[0-9A-Fa-f]+|\d+);", src)
    out["SP_BLOCKSZ_MIN"] = int(m.group(1), 0) if m else None
    return out


def ts(i):
    """the notation used for every dated line of a file: ISO, whole seconds, no zone"""
    s = i % 60; m = (i // 60) % 60; h = (i // 3600) % 24; d = 1 + (i // 86400) % 28
    return b"2020-01-%02dT%02d:%02d:%02d" % (d, h, m, s)


def instant(i):
    s = i % 60; m = (i // 60) % 60; h = (i // 3600) % 24; d = (i // 86400) % 28
    return EPOCH0 + d * 86400 + h * 3600 + m * 60 + s


# bytes allowed in bodies: everything except NL and digits; one isolated digit now and then
BODY = bytes(b for b in range(256) if b != 10 and not (48 <= b <= 57))
PLAIN = b"abcdefghijklmnopqrstuvwxyz ABCDEF.,:;-_/[]()"


def body(rng, n, wild):
    if n <= 0:
        return b""
    alpha = BODY if wild else PLAIN
    out = bytearray(rng.choice(alpha) for _ in range(n))
    if n >= 3 and rng.random() < 0.3:           # an isolated digit
        k = rng.randrange(1, n - 1)
        out[k] = 48 + rng.randrange(10)
        for j in (k - 1, k + 1):
            if 48 <= out[j] <= 57:
                out[j] = 120
    return bytes(out)


def adversarial_len(rng, bs):
    r = rng.random()
    k = rng.choice([1, 1, 2, 3])
    cands = [1, 2, bs - 1, bs, bs + 1, k * bs - 1, k * bs, k * bs + 1, bs // 2, 2 * bs + 3]
    if r < 0.6:
        return max(1, rng.choice(cands))
    return rng.randrange(1, max(2, 3 * bs))


def gen_file(rng, bs, nmsg=None, wild=True, lead=None, final_nl=None, maxlen=None, crlf=None):
    """a log built from dated head lines + continuation lines whose lengths are chosen against
    the block size bs.  Returns (bytes, table {line bytes: instant}, list of line bytes)."""
    nmsg = rng.choice([1, 1, 2, 3, 4, 6]) if nmsg is None else nmsg
    lead = rng.choice([0, 0, 0, 1, 2]) if lead is None else lead
    final_nl = (rng.random() < 0.6) if final_nl is None else final_nl
    crlf = (rng.random() < 0.15) if crlf is None else crlf
    eol = b"\r\n" if crlf else b"\n"
    lines, table = [], {}
    cap = (lambda n: n) if maxlen is None else (lambda n: max(1, min(n, maxlen)))
    for _ in range(lead):
        n = cap(adversarial_len(rng, bs))
        lines.append(body(rng, n - 1, wild) + b"\n" if n > 1 else b"\n")
    t = rng.randrange(0, 1000)
    for _ in range(nmsg):
        t += rng.choice([0, 1, 1, 2, 61])
        n = cap(adversarial_len(rng, bs))
        stamp = ts(t)
        rest = max(0, n - len(stamp) - len(eol))
        # " |" keeps a random body from being read as a zone name / fraction of the timestamp
        sep = b"" if rest < 1 else (b" " if rest == 1 else b" |")
        head = stamp + sep + body(rng, rest - len(sep), wild) + eol
        lines.append(head)
        table[head] = instant(t)
        for _ in range(rng.choice([0, 0, 1, 1, 2, 3])):
            n = cap(adversarial_len(rng, bs))
            if n == 1 or rng.random() < 0.1:
                lines.append(b"\n")
            else:
                lines.append(body(rng, n - len(eol), wild) + eol if n > len(eol) else b"\n")
    if not final_nl and lines:
        last = lines[-1]
        cut = last[:-len(eol)] if (last.endswith(eol) and len(last) > len(eol)) else last[:-1]
        if cut:
            if last in table and cut not in table:
                table[cut] = table[last]
                if lines.count(last) == 1:
                    del table[last]
            lines[-1] = cut
    # a continuation line must not equal a dated line (cannot: dated lines contain digit pairs)
    return b"".join(lines), table, lines



def nul_heavy_files(rng, n_random=6):
    """valid logs whose first 128 bytes are mostly NUL bytes: a short first dated head line followed by
    continuation lines of NUL bytes.  blockzero_analysis_bytes rejects a file only when the first
    min(128, |block zero|) bytes are ALL zero; every file here begins with a timestamp, so it is on the
    accepted side at every block size >= 64.  Returns [(bytes, table, note)]."""
    out = []

    def build(first_conts, later=None, t0=0, prefix_msgs=0, bare=False):
        lines, tab = [], {}
        t = t0
        for k in range(prefix_msgs):             # control: ordinary messages first (>= 128 bytes)
            h = ts(t) + b" |ordinary message number %c with plain text\n" % (97 + k)
            lines.append(h); tab[h] = instant(t); t += 1
            lines.append(b" plain continuation line\n")
        h = ts(t) + (b"\n" if bare else b" |a\n")
        lines.append(h); tab[h] = instant(t); t += 1
        lines += first_conts
        for conts in (later or [[b" tail\n"], [b"\x00" * 7 + b"\n", b"x\n"]]):
            h = ts(t) + b" |m\n"
            lines.append(h); tab[h] = instant(t); t += 1
            lines += conts
        return b"".join(lines), tab

    # NUL run directly after the first line
    for k in (65, 66, 80, 104, 105, 200, 700):
        out.append(build([b"\x00" * k + b"\n"]) + ("nul-run-%d-after-first-line" % k,))
    # NULs spread over several short continuation lines
    for r in (1, 3, 7, 12):
        out.append(build([b"\x00" * r + b"\n"] * (130 // (r + 1) + 2)) + ("nul-spread-lines-of-%d" % r,))
    # NUL share of the first 128 bytes: 50 %, 51 %, and the largest share a 20/23-byte head line allows
    for share, bare in ((64, False), (65, False), (66, False), (100, False), (104, False), (107, True)):
        hl = 20 if bare else 23
        room = 128 - hl                        # bytes of the first 128 after the head line
        nul = min(share, room - 1)
        filler = room - 1 - nul
        conts = [b"\x00" * nul + b"y" * filler + b"\n", b"after the first bytes\n"]
        f, tab = build(conts, bare=bare)
        assert f[:128].count(0) == nul
        out.append((f, tab, "nul-share-%d-of-128" % nul))
    # 90 % NUL among the bytes that follow the head line, mixed with other bytes, several lines
    conts = []
    for i in range(12):
        conts.append(bytes(0 if (i * 10 + j) % 10 else 122 for j in range(10)) + b"\n")
    out.append(build(conts) + ("nul-90pct-after-head-mixed",))
    # control: the same NUL-heavy message placed later in the file
    for k in (65, 104, 200):
        out.append(build([b"\x00" * k + b"\n"], prefix_msgs=3) + ("control-nul-run-%d-later-in-file" % k,))
    # no final newline, CRLF head, NUL run as the last line
    f, tab = build([b"\x00" * 90 + b"\n"], later=[[b"\x00" * 40]])
    out.append((f, tab, "nul-run-and-nul-last-line-without-newline"))
    # random members of the class
    for _ in range(n_random):
        conts, total = [], 0
        while total < 110:
            r = rng.choice([1, 2, 5, 9, 17, 33, 64, 70, 104])
            mix = rng.random() < 0.3
            l = bytes((0 if rng.random() < 0.85 else rng.choice(PLAIN)) for _ in range(r)) if mix else b"\x00" * r
            conts.append(l + b"\n"); total += r + 1
        f, tab = build(conts, t0=rng.randrange(0, 500), bare=rng.random() < 0.3)
        if f[:128].count(0) >= 65:
            out.append((f, tab, "nul-heavy-random(%d NUL in first 128)" % f[:128].count(0)))
    for f, tab, note in out:
        assert not all(b == 0 for b in f[:64]) and py_printed(f, tab)
    return out

# ----------------------------------------------------------------------------- python spec

def py_lines(f):
    out, i = [], 0
    while i < len(f):
        j = f.find(b"\n", i)
        j = len(f) - 1 if j < 0 else j
        out.append(f[i:j + 1])
        i = j + 1
    return out


def py_groups(f, table):
    """(leading undated lines, [(instant, [lines])])"""
    lead, gs = [], []
    for l in py_lines(f):
        if l in table:
            gs.append((table[l], [l]))
        elif gs:
            gs[-1][1].append(l)
        else:
            lead.append(l)
    return lead, gs


def py_printed(f, table):
    _, gs = py_groups(f, table)
    s = b"".join(b"".join(g[1]) for g in gs)
    if s and not s.endswith(b"\n"):
        s += b"\n"
    return s


# ----------------------------------------------------------------------------- gate classes

def first_dated(f, table):
    """(begin offset, end offset inclusive) of the first dated line, or None"""
    off = 0
    for l in py_lines(f):
        if l in table:
            return off, off + len(l) - 1
        off += len(l)
    return None


def gate_classes(f, table, bs):
    """known-finding predicates (decidable from the case) that hold of file f at block size bs.
    b0 = size of block zero = min(bs, |f|)."""
    cls = []
    b0 = min(bs, len(f))
    fd = first_dated(f, table)
    if fd is None:
        return cls
    beg, end = fd
    if beg + TSLEN > b0:
        cls.append("first_timestamp_not_within_block_zero")
    elif end + 1 > b0:
        cls.append("first_dated_line_not_complete_within_block_zero")
    if b0 >= SYSLOG_SZ_MAX:
        off, nlines, ndated = 0, 0, 0
        for l in py_lines(f):
            if off >= b0:
                break
            nlines += 1                       # complete or partial line that begins in block zero
            if l in table and off + len(l) <= b0:
                ndated += 1
            off += len(l)
        if nlines < 3 or ndated < 2:
            cls.append("blockzero_count_minimum_not_met")
    return cls


# ----------------------------------------------------------------------------- harness session

class Session:
    """accumulates commands for harness c02; run() returns one answer per command"""
    def __init__(self):
        self.cmds = []

    def add(self, c):
        self.cmds.append(c)
        return len(self.cmds) - 1

    def run(self, scratch, timeout=900):
        out, err = vlib.harness("c02", self.cmds, timeout=timeout, args=[scratch])
        if out is None or len(out) != len(self.cmds):
            return None, (err or "") + " (got %s answers for %d commands)" % (None if out is None else len(out), len(self.cmds))
        return out, ""


def parse_L(s):
    p = s.split("\t")
    if p[1] == "Done":
        return None
    if p[1] != "Found":
        return ("ERR", p[1])
    return tuple(int(x) for x in p[2:8]) + (p[8] if len(p) > 8 else "",)


def parse_S(s):
    p = s.split("\t")
    if p[1] == "Done":
        return None
    if p[1] != "Found":
        return ("ERR", p[1])
    return tuple(int(x) for x in p[2:7]) + (p[7] if len(p) > 7 else "",)


def parse_items(p):
    items = []
    for it in p:
        if not it:
            continue
        a = it.split(",")
        items.append((int(a[0]), int(a[1]), int(a[2]), int(a[3]), a[4] if len(a) > 4 else ""))
    return items


def parse_R(s):
    p = s.split("\t")
    if p[1] != "OK":
        return ("ERR", p[1])
    return parse_items(p[3:])


def parse_D(s):
    p = s.split("\t")
    return p[1], parse_items(p[3:])


# ----------------------------------------------------------------------------- Coq case text

COQ_HDR = vlib.COQ_PRINT_HDR + ("From Coq Require Import String List NArith ZArith.\nImport ListNotations.\n"
                                "From S4.Corr Require Import C02.\nOpen Scope string_scope.\nOpen Scope N_scope.\n")


def coq_table(table):
    return "[" + "; ".join('("%s", %d%%Z)' % (k.hex(), v) for k, v in sorted(table.items())) + "]"


def coq_opL(fo, r):
    if r is None:
        return "OpL %d None" % fo
    return 'OpL %d (Some (%d, %d, %d, %d, %d, %d, "%s"))' % ((fo,) + r)


def coq_opS(fo, r):
    if r is None:
        return "OpS %d None" % fo
    return 'OpS %d (Some (%d, %d, %d, %d, %d%%Z, "%s"))' % ((fo,) + r)


def coq_opR(items):
    return "OpR [" + "; ".join('(%d, %d, %d, %d%%Z, "%s")' % it for it in items) + "]"


def coq_model_cases(cases):
    """cases: list of (bs, file bytes, table, [op text])"""
    rows = ['(%d, "%s", %s, [%s])' % (bs, f.hex(), coq_table(tab), "; ".join(ops)) for bs, f, tab, ops in cases]
    return COQ_HDR + "Definition cases : list case := [\n%s\n].\nEval vm_compute in (model_bad cases).\n" % ";\n".join(rows)


def coq_printed_cases(cases):
    """cases: list of (file bytes, table, stdout bytes)"""
    rows = ['("%s", %s, "%s")' % (f.hex(), coq_table(tab), o.hex()) for f, tab, o in cases]
    return COQ_HDR + "Definition cases : list (string * list (string * Z) * string) := [\n%s\n].\nEval vm_compute in (spec_printed_bad cases).\n" % ";\n".join(rows)


def coq_spec_line_cases(cases):
    """cases: (file, fo, None | (fo_next, beg, end, hex))"""
    rows = []
    for f, fo, r in cases:
        rr = "None" if r is None else 'Some (%d, %d, %d, "%s")' % r
        rows.append('("%s", %d, %s)' % (f.hex(), fo, rr))
    return COQ_HDR + "Definition cases : list (string * N * option (N * N * N * string)) := [\n%s\n].\nEval vm_compute in (spec_find_line_bad cases).\n" % ";\n".join(rows)


def coq_spec_sysline_cases(cases):
    """cases: (file, table, fo, None | (fo_next, beg, dt, hex))"""
    rows = []
    for f, tab, fo, r in cases:
        rr = "None" if r is None else 'Some (%d, %d, %d%%Z, "%s")' % r
        rows.append('("%s", %s, %d, %s)' % (f.hex(), coq_table(tab), fo, rr))
    return COQ_HDR + "Definition cases : list (string * list (string * Z) * N * option (N * N * Z * string)) := [\n%s\n].\nEval vm_compute in (spec_find_sysline_bad cases).\n" % ";\n".join(rows)


def coq_spec_groups_cases(cases):
    """cases: (file, table, [(dt, hex)])"""
    rows = ['("%s", %s, [%s])' % (f.hex(), coq_table(tab), "; ".join('(%d%%Z, "%s")' % it for it in items))
            for f, tab, items in cases]
    return COQ_HDR + "Definition cases : list (string * list (string * Z) * list (Z * string)) := [\n%s\n].\nEval vm_compute in (spec_groups_bad cases).\n" % ";\n".join(rows)


GATE_CODES = {"FileOk": 0, "FileErrEmpty": 1, "FileErrTooSmall": 2, "FileErrNullBytes": 3,
              "FileErrNoLinesFound": 4, "FileErrNoSyslinesFound": 5}


def coq_gate_cases(cases):
    """cases: (bs, file, table, impl code)"""
    rows = ['(%d, "%s", %s, %d)' % (bs, f.hex(), coq_table(tab), code) for bs, f, tab, code in cases]
    return COQ_HDR + "Definition cases : list (N * string * list (string * Z) * N) := [\n%s\n].\nEval vm_compute in (gate_bad cases).\n" % ";\n".join(rows)


def eval_shards(ctx, workdir, builder, cases, what, per_shard=None):
    """run builder(case chunk) texts through coqc; returns list of (case index, code) or None"""
    if not cases:
        return []
    idx = list(range(len(cases)))
    shards = vlib.shard(idx, vlib.NCPU if per_shard is None else max(1, (len(idx) + per_shard - 1) // per_shard))
    texts = [builder([cases[i] for i in sh]) for sh in shards]
    res = vlib.coq_eval_shards(workdir, texts)
    bad = []
    for sh, (rc, out) in zip(shards, res):
        pairs = vlib.parse_eval_pairs(out) if rc == 0 else None
        if pairs is None:
            ctx.obligation_broken("correspondence" if "model" in what else "spec-evaluation", what + " (coqc on cases)", out)
            return None
        for k, c in pairs:
            bad.append((sh, k, c))
    return bad


# ----------------------------------------------------------------------------- the binary

def run_binary(path, bs=None, timeout=120):
    args = ["--color", "never"]
    if bs is not None:
        args += ["--blocksz", str(bs)]
    rc, out, err = vlib.run_s4(args + [path], timeout=timeout, env={"TZ": "UTC"})
    return rc, out, err


WITNESS = {}


def witnesses():
    """the recorded witness inputs of the three gate findings"""
    if WITNESS:
        return WITNESS
    # F3a: five 121-byte lines dated at column 0, block size 64
    lines = [ts(i) + b" " + b"x" * (121 - TSLEN - 2) + b"\n" for i in range(5)]
    WITNESS["F3a"] = (b"".join(lines), {l: instant(i) for i, l in enumerate(lines)}, 64)
    # F3b: a 100-byte undated first line, block size 64
    d = [ts(i) + b" hello\n" for i in range(5)]
    WITNESS["F3b"] = (b"u" * 99 + b"\n" + b"".join(d), {l: instant(i) for i, l in enumerate(d)}, 64)
    # F3c: two 4050-byte dated lines: printed at 4096, rejected when block zero >= 8096 bytes
    l2 = [ts(i) + b" " + b"x" * (4050 - TSLEN - 2) + b"\n" for i in range(2)]
    WITNESS["F3c"] = (b"".join(l2), {l: instant(i) for i, l in enumerate(l2)}, BLOCKSZ_DEF)
    return WITNESS


# ----------------------------------------------------------------------------- cache mode (WP-A)
# Operation sequences on ONE LineReader and ONE SyslineReader with the counters of summary() after
# every operation; evaluated against Model/Caches.v by Corr/C02c.v (cache_bad).

COQ_HDR_C = vlib.COQ_PRINT_HDR + ("From Coq Require Import String List NArith ZArith.\nImport ListNotations.\n"
                                  "From S4.Model Require Import Caches.\nFrom S4.Corr Require Import C02 C02c.\n"
                                  "Open Scope string_scope.\nOpen Scope N_scope.\n")

CACHE_PATHS = {0: "L:lru", 1: "L:eof", 2: "L:lines", 3: "L:by_end", 4: "L:A0", 5: "L:A1a", 6: "L:A1b", 7: "L:search",
               8: "L:in_block_done", 9: "L:fail",
               10: "LB:lru", 11: "LB:eof", 12: "LB:lines", 13: "LB:by_end", 14: "LB:A0", 15: "LB:A1a", 16: "LB:A1b",
               17: "LB:search(not stored)", 18: "LB:done/partial", 19: "LB:fail",
               20: "S:lru", 21: "S:range", 22: "S:syslines", 23: "S:search", 24: "S:done", 25: "S:in_block_done",
               26: "S:PANIC(dropped range)", 27: "S:fail",
               30: "SB:lru", 31: "SB:range", 32: "SB:syslines", 33: "SB:search", 34: "SB:done", 35: "SB:done/partial",
               36: "SB:PANIC(dropped range)", 37: "SB:fail", 40: "driver", 41: "unit",
               50: "L:block gone", 60: "LB:block gone"}


def line_starts(f):
    out, off = [], 0
    for l in py_lines(f):
        out.append(off); off += len(l)
    return out


def cache_ops(rng, f, tab, bs, n_ops, profile):
    """profile 'safe': find_line / find_line_in_block / find_sysline anywhere, LRU switches, drops, the driver;
    find_sysline_in_block only in the block-zero-analysis pattern (from 0, then at each returned offset) at the
    very beginning.  profile 'wild': find_sysline_in_block anywhere as well."""
    n = len(f)
    starts = line_starts(f)
    _, gs = py_groups(f, tab)
    nblocks = (n + bs - 1) // bs if bs else 0
    ops = []

    def some_fo():
        r = rng.random()
        if r < 0.4 and starts:
            return max(0, rng.choice(starts) + rng.choice([0, 0, 0, 1, -1]))
        if r < 0.55:
            return max(0, rng.choice([0, n - 1, n, n + 1, bs - 1, bs, bs + 1, 2 * bs, n - 2]))
        if r < 0.7 and ops and len(ops[-1]) > 1 and isinstance(ops[-1][1], int):
            return ops[-1][1]
        return rng.randrange(0, n + 2)

    if rng.random() < 0.35:
        # the gate pattern: in-block line finds from 0, then in-block sysline finds from 0 (offsets are
        # filled in while running: ("CLBn",) / ("CSBn",) mean "at the offset the previous one returned")
        for _ in range(rng.choice([1, 2, 3, 5])):
            ops.append(("CLBn",))
        for _ in range(rng.choice([1, 2, 3])):
            ops.append(("CSBn",))
    # drops: none in 45 % of the sequences; after a drop most find_sysline calls lie beyond what was dropped
    # (a call inside a dropped range panics and ends the sequence: wanted now and then, not always)
    drops = rng.random() >= 0.45
    kinds = ["CL"] * 5 + ["CLB"] * 2 + ["CS"] * 7 + ["CLE", "CSE"] + (["CDD", "CDS"] if drops else [])
    if profile == "wild":
        kinds += ["CSB"] * 4
    safe_from = 0
    sweep = rng.random() < 0.3          # a forward sweep over every line start: fills and overflows the LRU caches
    if sweep:
        for st_ in starts[:40]:
            ops.append((rng.choice(["CL", "CL", "CS"]), st_))
    for _ in range(n_ops):
        k = rng.choice(kinds)
        if k in ("CL", "CLB", "CS", "CSB"):
            fo = some_fo()
            if k in ("CS", "CSB") and safe_from and rng.random() < 0.8:
                fo = min(n + 1, safe_from + rng.randrange(0, max(1, n + 1 - min(n, safe_from))))
            ops.append((k, fo))
        elif k in ("CLE", "CSE"):
            ops.append((k, rng.choice([0, 1])))
        elif k == "CDD":
            bo = rng.randrange(0, nblocks + 1)
            ops.append((k, bo)); safe_from = max(safe_from, min(n, (bo + 1) * bs))
        elif k == "CDS":
            begs, off = [], len(b"".join(py_groups(f, tab)[0]))
            ends = []
            for g in gs:
                begs.append(off); off += sum(len(l) for l in g[1]); ends.append(off)
            if begs and rng.random() < 0.8:
                i = rng.randrange(len(begs))
                ops.append((k, begs[i])); safe_from = max(safe_from, ends[i])
            else:
                ops.append((k, some_fo()))
    if rng.random() < 0.5:
        ops.append(("CRD", rng.choice(["-", "1", "1", "10", "011", "1101"])))
        if rng.random() < 0.5:
            ops.append(("CS", some_fo()))
            ops.append(("CL", some_fo()))
    return ops


def oracle_candidates(f, ops):
    """byte strings other than whole lines that find_*_in_block may hand to the timestamp parser:
    the partial line [line begin .. requested offset]"""
    starts = line_starts(f)
    cands = set()
    for o in ops:
        if o[0] in ("CLB", "CSB") and isinstance(o[1], int) and o[1] < len(f):
            lb = max(s for s in starts if s <= o[1])
            cands.add(bytes(f[lb:o[1] + 1]))
    return cands


def _ints(s):
    return [int(x) for x in s.split(",")]


def parse_cache_answer(op, s):
    """-> dict(kind, res, part/pf, cnt) ; res None = Done ; kind 'PANIC' / 'ERR'"""
    p = s.split("\t")
    if len(p) < 2 or p[1] == "PANIC":
        return dict(kind="PANIC")
    k = p[0]
    if p[1] in ("Err", "NoReader", "LOOP"):
        return dict(kind="ERR", what=p[1])
    if k == "CL":
        if p[1] == "Done":
            return dict(kind=k, res=None, cnt=_ints(p[2]))
        return dict(kind=k, res=tuple(int(x) for x in p[2:8]) + (p[8],), cnt=_ints(p[9]))
    if k == "CLB":
        if p[1] == "Done":
            part = None if p[2] == "-" else (lambda a: (int(a[1]), int(a[2]), a[3]))(p[2].split(","))
            return dict(kind=k, res=None, part=part, cnt=_ints(p[3]))
        return dict(kind=k, res=tuple(int(x) for x in p[2:8]) + (p[8],), part=None, cnt=_ints(p[10]))
    if k == "CS":
        if p[1] == "Done":
            return dict(kind=k, res=None, cnt=_ints(p[2]))
        return dict(kind=k, res=tuple(int(x) for x in p[2:7]) + (p[7],), cnt=_ints(p[8]))
    if k == "CSB":
        if p[1] == "Done":
            return dict(kind=k, res=None, pf=p[2] == "1", cnt=_ints(p[3]))
        return dict(kind=k, res=tuple(int(x) for x in p[2:7]) + (p[7],), pf=p[8] == "1", cnt=_ints(p[9]))
    if k in ("CLE", "CSE", "CDD", "CDS", "CXD"):
        return dict(kind=k, cnt=_ints(p[2]))
    if k in ("CRD", "CRW"):
        return dict(kind=k, cnt=_ints(p[2]), items=parse_items(p[4:]))
    if k == "DY":
        # DY <result> <n> <items...> M <mtime seconds>
        m = p.index("M") if "M" in p else len(p)
        return dict(kind=k, result=p[1], cnt=[], items=parse_items(p[3:m]), mtime=int(p[m + 1]) if m + 1 < len(p) else -1)
    return dict(kind="ERR", what=s[:40])


def stored_form(kind, data):
    """the bytes of the container `kind` (plain | gz | bz2 | lz4) holding `data` (writers of checks/c05.py)"""
    if kind == "plain":
        return data
    import random as _r
    import c05
    if kind == "gz":
        return c05.gz_bytes(_r.Random(len(data)), data)
    if kind == "bz2":
        import bz2 as _bz2
        return _bz2.compress(data)
    if kind == "lz4":
        return c05.lz4_frame(data, [len(data)] if data else [], content_size=False)
    if kind == "xz":
        return c05.xz_variant(_r.Random(len(data)), data)[0]
    if kind == "tar":
        return _tar_of(data)[0]
    raise ValueError(kind)


def _tar_of(data):
    import random as _r, tarfile as _t
    import c05
    blob, placed, _ = c05.tar_tree(_r.Random(len(data)), [("m.log", data)], fmt=_t.USTAR_FORMAT, top="logs")
    return blob, placed[0][0]


def stored_member(kind, data):
    """the member path inside the archive written by stored_form (kind tar), else None"""
    return _tar_of(data)[1] if kind == "tar" else None


CONTAINER_CODE = {"plain": 0, "gz": 1, "bz2": 1, "lz4": 1, "xz": 2, "tar": 3}


def run_cache_cases(cases, scratch, timeout=900, per_cmd=15):
    """cases: [(bs, f, table, ops)].  Runs each sequence on fresh readers (one harness process, one
    command at a time where an offset depends on the previous answer).  Returns (answers, tables, ops) with
    the ops made concrete, sequences cut after a panic / error / hang (an operation that does not answer
    within per_cmd seconds: the harness is restarted), and the tables extended by the oracle's answers
    for partial-line byte strings; or (None, error text, None)."""
    import subprocess, select, time

    class Hang(Exception):
        pass

    state = {"proc": None, "buf": b""}

    def start():
        state["proc"] = subprocess.Popen([vlib.harness_bin("c02"), scratch], stdin=subprocess.PIPE,
                                         stdout=subprocess.PIPE, stderr=subprocess.DEVNULL)
        state["buf"] = b""

    def stop():
        p = state["proc"]
        if p is not None:
            try:
                p.kill(); p.wait(timeout=10)
            except Exception:
                pass
        state["proc"] = None

    def ask(cmd):
        p = state["proc"]
        p.stdin.write((cmd + "\n").encode()); p.stdin.flush()
        deadline = time.time() + per_cmd
        while b"\n" not in state["buf"]:
            left = deadline - time.time()
            r, _, _ = select.select([p.stdout], [], [], max(0.0, left))
            if not r:
                raise Hang(cmd[:60])
            chunk = os.read(p.stdout.fileno(), 1 << 16)
            if not chunk:
                raise RuntimeError("harness c02 ended while answering %r" % cmd[:60])
            state["buf"] += chunk
        line, state["buf"] = state["buf"].split(b"\n", 1)
        return line.decode()

    all_ans, all_tab, all_ops = [], [], []
    t_end = time.time() + timeout
    hangs = 0
    try:
        start()
        for case in cases:
            bs, f, tab, ops = case[:4]
            kind = case[4] if len(case) > 4 else "plain"
            if hangs >= 3:
                break                      # three hanging sequences are evidence enough; the rest is skipped
            if time.time() > t_end:
                raise RuntimeError("cache mode ran longer than %d s" % timeout)
            tab = dict(tab)
            ans, cops = [], []
            try:
                ask("K\t" + kind)
                if kind == "tar":
                    ask("M\t" + stored_member(kind, f))
                ask("F\t" + stored_form(kind, f).hex())
                if not ask("B\t%d" % bs).endswith("OK"):
                    raise RuntimeError("harness c02 could not open readers at blocksz %d" % bs)
                next_lb, next_sb = 0, 0
                for o in ops:
                    if o[0] == "CLBn":
                        if next_lb is None:
                            continue               # the pattern ends at the first Done
                        o = ("CLB", next_lb)
                    elif o[0] == "CSBn":
                        if next_sb is None:
                            continue
                        o = ("CSB", next_sb)
                    cops.append(o)
                    a = parse_cache_answer(o, ask("%s\t%s" % (o[0], o[1])))
                    ans.append(a)
                    if a["kind"] in ("PANIC", "ERR"):
                        break
                    if o[0] == "CLB":
                        next_lb = a["res"][0] if a["res"] else None
                    if o[0] == "CSB":
                        next_sb = a["res"][0] if a["res"] else None
                if any(o_[0] == "DY" for o_ in cops) and ans and ans[-1].get("kind") == "DY":
                    # the oracle with the filler year (find_sysline, year None) on every dated line
                    fill = {}
                    for l_ in sorted(tab):
                        r = ask("T\t" + l_.hex()).split("\t")[1]
                        if r not in ("None", "PANIC"):
                            fill[l_] = int(r)
                    ans[-1]["filler"] = fill
                for c in sorted(oracle_candidates(f, cops)):
                    if c not in tab and len(c) >= 2:
                        r = ask("T\t" + c.hex()).split("\t")[1]
                        if r not in ("None", "PANIC"):
                            tab[c] = int(r)
            except Hang:
                # the operation never answered: record it, restart the harness for the next case
                while len(ans) < len(cops):
                    ans.append(dict(kind="ERR", what="HANG (no answer within %d s)" % per_cmd))
                hangs += 1
                stop(); start()
            all_ans.append(ans); all_tab.append(tab); all_ops.append(cops)
    except (RuntimeError, OSError, IndexError, ValueError) as e:
        stop()
        return None, "harness c02 (cache mode): %s" % e, None
    stop()
    return all_ans, all_tab, all_ops


def _coq_list(xs):
    return "[" + "; ".join(str(x) for x in xs) + "]"


def _coq_lans(r):
    return "None" if r is None else '(Some (%d, %d, %d, %d, %d, %d, "%s"))' % r


def _coq_sans(r):
    return "None" if r is None else '(Some (%d, %d, %d, %d, %d%%Z, "%s"))' % r


def coq_cop(o):
    k = o[0]
    if k in ("CL", "CLB", "CS", "CSB", "CDD", "CDS"):
        return "(%s %d)" % ({"CL": "OL", "CLB": "OLB", "CS": "OS", "CSB": "OSB", "CDD": "ODD", "CDS": "ODS"}[k], o[1])
    if k in ("CLE", "CSE"):
        return "(%s %s)" % ("OLE" if k == "CLE" else "OSE", "true" if o[1] else "false")
    if k == "CXD":
        return "OXD"
    if k == "CRW":
        return "(ORD [])"
    return "(ORD [%s])" % "; ".join("true" if c == "1" else "false" for c in o[1] if c in "01")


def window_spec(o):
    """CRW argument "a,b,plan" -> (a | None, b | None, plan string)"""
    a, b, plan = (o[1].split(",") + ["", ""])[:3]
    return (None if a in ("-", "") else int(a)), (None if b in ("-", "") else int(b)), plan


def py_win_scan(gs, a, b):
    """Proofs/CachesFwdRunProofs.v win_scan: what a forward scan with the window a..b (inclusive) selects from the
    messages gs = [(instant, lines)]: messages before a are skipped, the first message after b ends the scan"""
    out = []
    for t, ls in gs:
        if a is not None and t < a:
            continue
        if b is not None and t > b:
            break
        out.append((t, ls))
    return out


def yearless_tables(table, years):
    """table: line bytes -> (month, day, h, m, s); -> {year: {line: unix seconds}}"""
    import calendar
    return {y: {l: calendar.timegm((y, mo, d, h, mi, se, 0, 0, 0)) for l, (mo, d, h, mi, se) in table.items()} for y in years}


def py_assign_years(msgs, year, tol=90000):
    """coq/Model/Year.v assign_years (instants in seconds): msgs = [(month, day, h, m, s)] in file order ->
    [(year, instant)]"""
    import calendar
    out, prev = [], None
    for (mo, d, h, mi, se) in reversed(msgs):
        while True:
            t = calendar.timegm((year, mo, d, h, mi, se, 0, 0, 0))
            if prev is not None and prev < t and t - prev > tol:
                year -= 1
                continue
            break
        out.append((year, t)); prev = t
    return list(reversed(out))


def coq_iop(o, a):
    k = o[0]
    if k == "DY":
        _, wa, wb = (o[1].split(",") + ["-", "-"])[:3]
        oz = lambda v: "None" if v in ("-", "") else "(Some %s%%Z)" % v
        tabs = "[%s]" % "; ".join("(%d%%Z, %s)" % (y, coq_table(t)) for y, t in sorted(o[2].items()))
        year = o[3]
        if a["kind"] == "PANIC":
            return "IRY %s %d%%Z %s %s [true] None" % (tabs, year, oz(wa), oz(wb))
        return "IRY %s %d%%Z %s %s [true] (Some [%s])" % (tabs, year, oz(wa), oz(wb),
                                                     "; ".join('(%d, %d, %d, %d%%Z, "%s")' % it for it in a["items"]))
    if k == "CRW":
        wa, wb, plan = window_spec(o)
        oz = lambda v: "None" if v is None else "(Some %d%%Z)" % v
        pl = "[%s]" % "; ".join("true" if ch == "1" else "false" for ch in plan if ch in "01")
        if a["kind"] == "PANIC":
            return "IRW %s %s %s None []" % (oz(wa), oz(wb), pl)
        return "IRW %s %s %s (Some [%s]) %s" % (oz(wa), oz(wb), pl,
                                                "; ".join('(%d, %d, %d, %d%%Z, "%s")' % it for it in a["items"]), _coq_list(a["cnt"]))
    if a["kind"] == "PANIC":
        return "IPANIC %s" % coq_cop(o)
    c = _coq_list(a["cnt"])
    if k == "CL":
        return "IL %d %s %s" % (o[1], _coq_lans(a["res"]), c)
    if k == "CLB":
        part = "None" if a["part"] is None else '(Some (%d, %d, "%s"))' % a["part"]
        return "ILB %d %s %s %s" % (o[1], _coq_lans(a["res"]), part, c)
    if k == "CS":
        return "IS %d %s %s" % (o[1], _coq_sans(a["res"]), c)
    if k == "CSB":
        return "ISB %d %s %s %s" % (o[1], _coq_sans(a["res"]), "true" if a["pf"] else "false", c)
    if k in ("CLE", "CSE"):
        return "%s %s %s" % ("ILE" if k == "CLE" else "ISE", "true" if o[1] else "false", c)
    if k in ("CDD", "CDS"):
        return "%s %d %s" % ("IDD" if k == "CDD" else "IDS", o[1], c)
    if k == "CXD":
        return "IXD %s" % c
    plan = "[%s]" % "; ".join("true" if ch == "1" else "false" for ch in o[1] if ch in "01")
    return "IRD %s [%s] %s" % (plan, "; ".join('(%d, %d, %d, %d%%Z, "%s")' % it for it in a["items"]), c)


def coq_cache_cases(cases):
    """cases: (bs, file, table, [(op, answer)][, kind])"""
    rows = []
    for case in cases:
        bs, f, tab, oa = case[:4]
        stream = CONTAINER_CODE[case[4] if len(case) > 4 else "plain"]
        rows.append('(%d, %d, "%s", %s, [%s])' % (bs, stream, f.hex(), coq_table(tab), ";\n   ".join(coq_iop(o, a) for o, a in oa)))
    return COQ_HDR_C + "Definition cases : list ccase := [\n%s\n].\nEval vm_compute in (cache_bad cases).\n" % ";\n".join(rows)


def py_spec_find_line(f, fo):
    """Spec/LinesSpec.v spec_find_line: (fo_next, beg, end, bytes) | None"""
    if fo >= len(f):
        return None
    b = f.rfind(b"\n", 0, fo) + 1
    e = f.find(b"\n", fo)
    e = len(f) - 1 if e < 0 else e
    return (e + 1, b, e, bytes(f[b:e + 1]))


def py_spec_find_sysline(f, table, fo):
    """Spec/LinesSpec.v spec_find_sysline: (fo_next, beg, instant, bytes) | None"""
    lead, gs = py_groups(f, table)
    off = sum(len(l) for l in lead)
    for t, ls in gs:
        n = sum(len(l) for l in ls)
        if fo < off + n:
            return (off + n, off, t, b"".join(ls))
        off += n
    return None


def cache_spec_mismatches(f, table, ops, answers, check_sysline_until=None, judge_lines=True):
    """C for the cache mode, python side: indexes of operations whose answer contradicts the spec.
    find_line / find_sysline / the driver must give the spec answer; find_line_in_block may give Done;
    a panic is a mismatch unless a drop operation came before it (documented: find_sysline inside the
    range of a dropped sysline).  Answers of find_sysline after the first find_sysline_in_block that is
    not part of the leading block-zero-analysis pattern are not judged (check_sysline_until).  judge_lines=False:
    the stand-alone LineReader reads a streamed container with block drops enabled (disable_drop_data acts on
    the SyslineReader's BlockReader only): a backward find_line may answer Done there (tied to the model only)."""
    bad = []
    dropped = False
    for i, (o, a) in enumerate(zip(ops, answers)):
        k = o[0]
        if a["kind"] == "ERR":
            bad.append((i, "error " + a.get("what", "")))
            continue
        if a["kind"] == "PANIC":
            if not (dropped and k in ("CS", "CSB", "CRD", "CRW")):
                bad.append((i, "panic"))
            continue
        judge_s = check_sysline_until is None or i < check_sysline_until
        if (k == "CL" or (k == "CLB" and a["res"] is not None)) and judge_lines:
            s = py_spec_find_line(f, o[1])
            got = None if a["res"] is None else (a["res"][0], a["res"][1], a["res"][2], bytes.fromhex(a["res"][6]))
            if got != s:
                bad.append((i, "find_line"))
        elif k == "CS" and judge_s:
            s = py_spec_find_sysline(f, table, o[1])
            got = None if a["res"] is None else (a["res"][0], a["res"][1], a["res"][4], bytes.fromhex(a["res"][5]))
            if got != s:
                bad.append((i, "find_sysline"))
        elif k == "CRD" and judge_s:
            _, gs = py_groups(f, table)
            got = [(it[3], bytes.fromhex(it[4])) for it in a["items"]]
            if got != [(t, b"".join(ls)) for t, ls in gs]:
                bad.append((i, "driver"))
        elif k == "CRW" and judge_s:
            wa, wb, _ = window_spec(o)
            _, gs = py_groups(f, table)
            got = [(it[3], bytes.fromhex(it[4])) for it in a["items"]]
            if got != [(t, b"".join(ls)) for t, ls in py_win_scan(gs, wa, wb)]:
                bad.append((i, "window driver"))
        if k in ("CDD", "CDS") or (k == "CRD" and "1" in o[1]) or (k == "CRW" and "1" in window_spec(o)[2]):
            dropped = True
    return bad


def first_wild_sysline_in_block(ops, answers=None):
    """index of the first find_sysline_in_block that is not part of the leading block-zero pattern
    (in-block line finds, then in-block sysline finds from offset 0, each at the offset the one before
    returned: the pattern of theorem gate_then_refines), or None"""
    i = 0
    while i < len(ops) and ops[i][0] == "CLB":
        i += 1
    expect = 0
    while i < len(ops) and ops[i][0] == "CSB" and expect is not None and ops[i][1] == expect:
        a = answers[i] if answers is not None and i < len(answers) else None
        expect = a["res"][0] if a is not None and a.get("kind") == "CSB" and a.get("res") else None
        i += 1
    for j in range(i, len(ops)):
        if ops[j][0] == "CSB":
            return j
    return None


def shrink_cache_case(bs, f, table, ops, scratch, wild_from, budget=120, kind="plain"):
    jl = kind in ("plain", "tar")
    """greedy removal of operations while some answer still contradicts the spec; returns (ops, answers)"""
    def failing(cand):
        ans, tabs, cops = run_cache_cases([(bs, f, table, cand, kind)], scratch)
        if ans is None:
            return None
        w = first_wild_sysline_in_block(cops[0], ans[0])
        return (cops[0], ans[0]) if cache_spec_mismatches(f, tabs[0], cops[0], ans[0], w, jl) else None
    cur = failing(ops)
    if cur is None:
        return ops, None
    if any(a["kind"] == "ERR" and "HANG" in a.get("what", "") for a in cur[1]):
        budget = min(budget, 2)          # every re-run of a hanging sequence costs the answer timeout
    runs = 0
    changed = True
    while changed and runs < budget:
        changed = False
        for i in range(len(cur[0]) - 1, -1, -1):
            cand = cur[0][:i] + cur[0][i + 1:]
            runs += 1
            r = failing(cand) if cand else None
            if r is not None:
                cur = r; changed = True
                break
            if runs >= budget:
                break
    return cur
