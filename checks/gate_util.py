"""C12, block-zero acceptance analysis (WP-G): generators of block-zero contents in SEVERAL timestamp notations
(single-notation and mixed), the driver of harness c12 (in-process SyslogProcessor stage 0/1 + summary counters,
first pass on a bare SyslineReader, per-line row oracle), the python transliteration of the classes of
coq/Model/GateSpec.v (cross-checked against Coq on every B case) and the writer of Corr/C12.v case files."""
import os
import vlib
import lines_util as U

SYSLOG_SZ_MAX = U.SYSLOG_SZ_MAX
DATETIME_STR_MIN = 8            # checked against coq/Gen/BlockConsts.v by consts_from_gen()
GATE_CODES = dict(U.GATE_CODES)

CLASS_F3A = "first_dated_line_not_complete_within_block_zero"
CLASS_F3B = "first_timestamp_not_within_block_zero"
CLASS_F3C = "blockzero_count_minimum_not_met"
CLASS_F3D = "blockzero_mixed_notation"


def consts_from_gen():
    """constants of the regenerated coq/Gen/BlockConsts.v (what the Coq model uses)"""
    import re
    src = open(os.path.join(vlib.ROOT, "coq", "Gen", "BlockConsts.v")).read()
    return {k: int(v) for k, v in re.findall(r"Definition (\w+) : N := (\d+)\.", src)}


# ----------------------------------------------------------------------------- notations

def _hms(t):
    return (t // 3600) % 24, (t // 60) % 60, t % 60


def n_iso(t):
    h, m, s = _hms(t)
    return b"2020-01-%02dT%02d:%02d:%02d" % (1 + (t // 86400) % 28, h, m, s)


def n_bracket(t):
    h, m, s = _hms(t)
    return b"[2020/01/%02d %02d:%02d:%02d.%03d]" % (1 + (t // 86400) % 28, h, m, s, t % 1000)


def n_syslog(t):
    h, m, s = _hms(t)
    return b"Jan %2d %02d:%02d:%02d host prog[%d]:" % (1 + (t // 86400) % 28, h, m, s, 100 + t % 7)


def n_epoch(t):
    return b"%d" % (1577836800 + t)


def n_isozone(t):
    h, m, s = _hms(t)
    return b"2020-01-%02dT%02d:%02d:%02d.%03d+01:00" % (1 + (t // 86400) % 28, h, m, s, t % 1000)


def n_ctime(t):
    h, m, s = _hms(t)
    d = 1 + (t // 86400) % 28
    wd = [b"Wed", b"Thu", b"Fri", b"Sat", b"Sun", b"Mon", b"Tue"][(d - 1) % 7]
    return b"%s Jan %2d %02d:%02d:%02d 2020" % (wd, d, h, m, s)


def n_space(t):
    h, m, s = _hms(t)
    return b"2020-01-%02d %02d:%02d:%02d,%03d" % (1 + (t // 86400) % 28, h, m, s, t % 1000)


NOTATIONS = [n_iso, n_bracket, n_syslog, n_epoch, n_isozone, n_ctime, n_space]


def gen_gate_file(rng, hint, notations, nmsg, lead=0, maxlen=None, order="alternate", final_nl=True):
    """a log whose head lines use the given notations (one = uniform; several = mixed: alternating, or the first
    notation for the first `order` lines then the second).  Line lengths chosen against the block size `hint`."""
    cap = (lambda n: n) if maxlen is None else (lambda n: max(1, min(n, maxlen)))
    lines = []
    for _ in range(lead):
        n = cap(U.adversarial_len(rng, hint))
        lines.append(U.body(rng, n - 1, False) + b"\n" if n > 1 else b"\n")
    t = rng.randrange(0, 2000)
    for k in range(nmsg):
        t += rng.choice([1, 1, 2, 61])
        if len(notations) == 1:
            nf = notations[0]
        elif order == "alternate":
            nf = notations[k % len(notations)]
        else:
            nf = notations[0] if k < order else notations[1 % len(notations)]
        stamp = nf(t)
        n = cap(U.adversarial_len(rng, hint))
        rest = max(0, n - len(stamp) - 1)
        sep = b"" if rest < 1 else (b" " if rest == 1 else b" |")
        lines.append(stamp + sep + U.body(rng, rest - len(sep), False) + b"\n")
        for _ in range(rng.choice([0, 0, 1, 2])):
            n = cap(U.adversarial_len(rng, hint))
            lines.append((b" " + U.body(rng, n - 2, False) + b"\n") if n > 2 else b"\n")
    f = b"".join(lines)
    if not final_nl and f.endswith(b"\n"):
        f = f[:-1]
    return f


def gate_files(rng, n):
    """[(bytes, note)]: uniform files in every notation, mixed-notation files, files around SYSLOG_SZ_MAX,
    undated files, NUL prefixes, tiny files"""
    out = []
    for k in range(n):
        r = rng.random()
        hint = rng.choice([64, 64, 128, 32, 256])
        if r < 0.35:
            nf = rng.choice(NOTATIONS)
            f = gen_gate_file(rng, hint, [nf], rng.choice([1, 2, 3, 5]), lead=rng.choice([0, 0, 0, 1, 2]),
                              maxlen=rng.choice([None, 60, 200]), final_nl=rng.random() < 0.8)
            note = "uniform:" + nf.__name__
        elif r < 0.65:
            a, b = rng.sample(NOTATIONS, 2)
            f = gen_gate_file(rng, hint, [a, b], rng.choice([2, 3, 4, 6]), lead=rng.choice([0, 0, 1]),
                              maxlen=rng.choice([None, 60, 200]), order=rng.choice(["alternate", 1, 2, 3]),
                              final_nl=rng.random() < 0.8)
            note = "mixed:%s+%s" % (a.__name__, b.__name__)
        elif r < 0.82:
            # block zero >= SYSLOG_SZ_MAX: 3 lines / 2 messages minima, uniform or mixed
            nfs = [rng.choice(NOTATIONS)] if rng.random() < 0.5 else rng.sample(NOTATIONS, 2)
            f = gen_gate_file(rng, rng.choice([2800, 2100, 1400]), nfs, rng.choice([1, 2, 3, 4]), lead=rng.choice([0, 0, 1]),
                              maxlen=rng.choice([2900, 4100]), order=rng.choice(["alternate", 1, 2]))
            if len(f) < SYSLOG_SZ_MAX + 10:          # make block zero reach SYSLOG_SZ_MAX: a long tail line
                f += b" " + b"t" * (SYSLOG_SZ_MAX + rng.choice([10, 200]) - len(f)) + b"\n"
            note = "large:" + "+".join(x.__name__ for x in nfs)
        elif r < 0.87:
            f = b"".join(U.body(rng, rng.randrange(0, 90), False) + b"\n" for _ in range(rng.choice([1, 2, 4])))
            note = "undated"
        elif r < 0.95:
            nf = rng.choice(NOTATIONS)
            f = b"\x00" * rng.choice([5, 63, 64, 100, 127, 128, 130]) + rng.choice([b"\n", b""]) + \
                gen_gate_file(rng, hint, [nf], 2)
            note = "nul-prefix:" + nf.__name__
        else:
            f = rng.choice([b"", b"x", b"2020\n", b"2020-01-01T00:00:01", b"\n\n\n\n\n\n\n"])
            note = "tiny"
        if len(f) <= 16000:
            out.append((f, note))
    return out


def witness_f3d():
    a = lambda i: b"2020-01-01T00:00:0%d hello world, this line is fifty bytes long\n" % i
    b = lambda i: b"[2020/01/01 00:00:1%d.123] hello\n" % i
    return a(1) + b(1) + a(2) + b(2) + a(3)


# ----------------------------------------------------------------------------- harness c12

class GSession:
    def __init__(self):
        self.cmds = []

    def add(self, c):
        self.cmds.append(c)
        return len(self.cmds) - 1

    def run(self, scratch, timeout=900):
        out, err = vlib.harness("c12", self.cmds, timeout=timeout, args=[scratch])
        if out is None or len(out) != len(self.cmds):
            return None, (err or "") + " (got %s answers for %d commands)" % (None if out is None else len(out), len(self.cmds))
        return out, ""


def parse_M(s):
    """-> [(row, slice_end, dt seconds, dt_end)] sorted by row"""
    p = s.split("\t")
    out = []
    if len(p) > 1 and p[1]:
        for it in p[1].split(","):
            a = it.split(":")
            out.append((int(a[0]), int(a[1]), None if a[2] == "PANIC" else int(a[2]), int(a[3]) if len(a) > 3 else 0))
    return sorted(out)


def _pats(s):
    return [tuple(int(x) for x in it.split(":")) for it in s.split(",") if it]


def parse_G(s):
    """-> dict(result, patterns [(row,count)], attempted, ez [9], lru (hit, miss, put), stored, stage2) or None"""
    p = s.split("\t")
    if len(p) < 9:
        return dict(result=p[1] if len(p) > 1 else "?", broken=True)
    ez = [int(x) for x in (p[4] + "," + p[5] + "," + p[6]).split(",")]
    return dict(result=p[1], patterns=_pats(p[2]), attempted=int(p[3]), ez=ez, lru=tuple(int(x) for x in p[7].split(",")),
                stored=int(p[8]), stage2=p[9] if len(p) > 9 else "-", broken=False)


def parse_P(s):
    p = s.split("\t")
    if len(p) < 8:
        return dict(broken=True, raw=s)
    return dict(found=int(p[1]), patterns=_pats(p[2]), attempted=int(p[3]), broken=False)


def oracle_for(files, scratch):
    """{line bytes: [(row, se, dt, dt_end)]} for every line of every file, via harness c12 `M`"""
    s = GSession()
    idx = {}
    for f in files:
        for l in U.py_lines(f):
            if l not in idx and len(l) >= DATETIME_STR_MIN:
                idx[l] = s.add("M\t" + l.hex())
    if not idx:
        return {}, ""
    out, err = s.run(scratch)
    if out is None:
        return None, err
    return {l: parse_M(out[i]) for l, i in idx.items()}, ""


# ----------------------------------------------------------------------------- classes (python side of Model/GateSpec.v)

def dated_lines(f, orc):
    """[(begin, end inclusive, first row, dt_end)] of the lines some row dates, in file order"""
    out, off = [], 0
    for l in U.py_lines(f):
        m = orc.get(l) if len(l) >= DATETIME_STR_MIN else None
        if m:
            out.append((off, off + len(l) - 1, m[0][0], m[0][3], l))
        off += len(l)
    return out


def matched_by(row, line, orc):
    return any(r == row for r, _, _, _ in orc.get(line, []))


def spec_accept(f, orc, consts):
    if len(f) < consts["bytes_min"] or all(b == 0 for b in f[:consts["bytes_null_max"]]):
        return None
    d = dated_lines(f, orc)
    return d[0][2] if d else None


def class_bits(f, orc, bs, consts):
    """the three class predicates of Model/GateSpec.v as bits 1 (F3a+F3b), 2 (F3c), 4 (F3d)"""
    b0 = min(bs, len(f))
    d = dated_lines(f, orc)
    bits = 0
    if d and d[0][1] >= b0:
        bits |= 1
    if b0 >= consts["syslog_sz_max"]:
        ls = U.py_lines(f)
        three = len(ls) >= 2 and len(ls[0]) < len(f) and len(ls[0]) + len(ls[1]) < b0
        two = len(d) >= 2 and d[1][1] < b0
        if not (three and two):
            bits |= 2
    if len(d) >= 2:
        r = d[0][2]
        if not matched_by(r, d[1][4], orc):
            bits |= 4
        elif len(f) >= consts["syslog_sz_max"] and len(d) >= 3 and not matched_by(r, d[2][4], orc):
            bits |= 4
    return bits


def class_names(f, orc, bs, consts):
    """known-finding predicate names (known_findings.d/C12.json) that hold of (f, bs)"""
    bits = class_bits(f, orc, bs, consts)
    out = []
    if bits & 1:
        b0 = min(bs, len(f))
        beg, end, row, dt_end, _ = dated_lines(f, orc)[0]
        out.append(CLASS_F3B if beg + dt_end > b0 else CLASS_F3A)
    if bits & 2:
        out.append(CLASS_F3C)
    if bits & 4:
        out.append(CLASS_F3D)
    return out


# ----------------------------------------------------------------------------- Coq cases (Corr/C12.v)

COQ_HDR = vlib.COQ_PRINT_HDR + ("From Coq Require Import String List NArith ZArith.\nImport ListNotations.\n"
                                "From S4.Corr Require Import C12.\nOpen Scope string_scope.\nOpen Scope N_scope.\n")


def coq_otab(f, orc):
    """oracle of the file's lines as [(row, [(slice hex, dt)])]"""
    per = {}
    for l in set(U.py_lines(f)):
        for row, se, dt, _ in orc.get(l, []):
            if dt is None:
                continue
            per.setdefault(row, {})[l[:se]] = dt
    return "[" + "; ".join('(%d, [%s])' % (r, "; ".join('("%s", %d%%Z)' % (k.hex(), v) for k, v in sorted(m.items())))
                           for r, m in sorted(per.items())) + "]"


def _cl(l):
    return "[" + "; ".join("(%d, %d)" % t for t in l) + "]"


def coq_gate2_cases(cases):
    """cases: (bs, f, orc, g (parse_G), p (parse_P))"""
    rows = []
    for bs, f, orc, g, p in cases:
        code = GATE_CODES.get(g["result"], 99)
        exp = "(%d, %s, %d, [%s], %d, %d, %s)" % (code, _cl(g["patterns"]), g["attempted"], "; ".join(str(x) for x in g["ez"]),
                                                g["lru"][1], p["found"], _cl(p["patterns"]))
        h = f.hex()
        chunks = "[" + "; ".join('"%s"' % h[i:i + 4096] for i in range(0, len(h), 4096)) + "]"
        rows.append('(%d, %s, %s, %s)' % (bs, chunks, coq_otab(f, orc), exp))
    return COQ_HDR + "Definition cases : list case := [\n%s\n].\nEval vm_compute in (gate2_check cases).\n" % ";\n".join(rows)


BIT_NAMES = {1: "gate result", 2: "final pattern counts (chosen row, count)", 4: "regex_captures_attempted", 8: "ezcheck counters",
             16: "parse LRU misses", 32: "first-pass syslines found", 64: "first-pass per-row counts",
             128: "as-coded (EZCHECK) analysis vs plain first-matching-row analysis"}


def bit_names(code):
    return [n for b, n in BIT_NAMES.items() if code & b]


# ----------------------------------------------------------------------------- instants across block edges (follow-up: seeded C12-m3)
# Notations with VARIABLE-LENGTH parts (1..9 fractional digits; zone forms of different lengths).  The zone form is
# fixed per file (one notation per file); the number of fractional digits varies from line to line.

ZONE_FORMS = [b"", b"+01:00", b"-0330", b"Z", b" UTC", b" +05:45", b" PST", b"-11"]
DT_FORMAT = "%Y%m%dT%H%M%S%.9f"          # with -u: the instant attributed to every printed line, in UTC, nanoseconds


def frac_digits(rng, n):
    s = b"".join(b"%d" % rng.randrange(10) for _ in range(n))
    return s[:-1] + b"%d" % rng.randrange(1, 10)          # last digit non-zero: every shorter prefix is another value


def stamp_frac(rng, t, style, zone, nfrac=None):
    h, m, s = _hms(t)
    d = 1 + (t // 86400) % 28
    nfrac = rng.randrange(1, 10) if nfrac is None else nfrac
    fr = frac_digits(rng, nfrac)
    if style == "iso":
        return b"2020-01-%02dT%02d:%02d:%02d.%s%s" % (d, h, m, s, fr, zone)
    if style == "space":
        return b"2020-01-%02d %02d:%02d:%02d,%s%s" % (d, h, m, s, fr, zone)
    if style == "bracket":
        return b"[2020/01/%02d %02d:%02d:%02d.%s]" % (d, h, m, s, fr)
    raise ValueError(style)


FRAC_STYLES = ["iso", "iso", "space", "bracket"]      # (epoch.fraction is matched for some digit counts only: not one notation)


def pad_line(n):
    """a continuation line of exactly n bytes (n >= 1)"""
    return b"\n" if n == 1 else b" " + b"p" * (n - 2) + b"\n"


def sweep_file(rng, bs, style, zone, positions=None):
    """a single-notation log in which, for the block size bs, a block edge falls at EVERY position j = 0..L+1 of the
    timestamp of some dated line (before / inside / after year, time, fraction, zone), in later blocks; the first line
    is short and complete in block zero.  Continuation lines pad each dated line to its offset."""
    t = rng.randrange(0, 3000)
    out = bytearray(stamp_frac(rng, t, style, zone) + b" |first\n")
    probe = stamp_frac(rng, t, style, zone, 9)
    js = list(range(0, len(probe) + 2)) if positions is None else list(positions)
    rng.shuffle(js)
    for j in js:
        t += rng.choice([1, 2, 61])
        st = stamp_frac(rng, t, style, zone)
        off = len(out)
        k = (off + j) // bs + 1
        target = k * bs - j                  # the dated line starts j bytes before the edge k*bs
        while target < off:
            target += bs
        if target > off:
            out += pad_line(target - off)
        out += st + b" |m%d\n" % j
        if rng.random() < 0.3:
            out += b" cont\n"
    return bytes(out)


def small_frac_file(rng, nmsg=None):
    """a small single-notation log (for runs at EVERY block size): dated lines with 1..9 fractional digits"""
    style, zone = rng.choice(FRAC_STYLES), rng.choice(ZONE_FORMS)
    t = rng.randrange(0, 3000)
    out = bytearray()
    for k in range(nmsg or rng.choice([3, 4, 6])):
        t += rng.choice([1, 2, 61])
        out += stamp_frac(rng, t, style, zone) + rng.choice([b" |a\n", b" |hello world\n", b"\n", b" |" + b"x" * rng.randrange(1, 70) + b"\n"])
        for _ in range(rng.choice([0, 0, 1, 2])):
            out += pad_line(rng.choice([1, 2, 7, 30, 63, 64, 65]))
    return bytes(out), "%s zone=%r" % (style, zone.decode())


def uniform(f, orc):
    """single-notation domain: some row matches the first dated line and every later line that any row dates"""
    d = dated_lines(f, orc)
    return bool(d) and all(matched_by(d[0][2], x[4], orc) for x in d)


def parse_items_ns(s):
    """T/R answer -> (status, [(beg, end, ns)])"""
    p = s.split("\t")
    st = p[1] if len(p) > 1 else "?"
    items = []
    for it in p[3:]:
        if it:
            a = it.split(",")
            items.append((int(a[0]), int(a[1]), int(a[2])))
    return st, items


# ----------------------------------------------------------------------------- the --blocksz argument

def blocksz_args(rng, consts, n_random):
    """argument strings: every accepted form at the bounds and inside, quirks, malformed and out-of-range ones"""
    lo, hi = max(consts["blocksz_min"], consts["sp_blocksz_min"]), consts["blocksz_max"]
    vals = [0, 1, lo - 1, lo, lo + 1, 100, 4096, 65535, 65536, hi - 1, hi, hi + 1, 2 ** 32, 2 ** 64 - 1, 2 ** 64, 10 ** 20]
    fm = {10: ("", "{:d}"), 16: ("0x", "{:x}"), 8: ("0o", "{:o}"), 2: ("0b", "{:b}")}
    out = set()
    for v in vals:
        for r, (p, f) in fm.items():
            d = f.format(v)
            out |= {p + d, p + "+" + d, p + p + d if p else "+" + d, p + d.upper(), p + "0" + d}
    out |= {"", "0x", "0o", "0b", "+", "-", "0X40", "0O100", "0B1000000", "64 ", " 64", "1_000", "0x4_0", "-64", "0x-40", "0x0o100",
            "0o0x40", "0b2", "0o8", "0xg", "6 4", "64.0", "1e3", "٦٤", "0x0x0x40", "++64", "+-64", "0x++40", "0b0b0b1000000", "x40", "0"}
    for _ in range(n_random):
        r, (p, f) = rng.choice(list(fm.items()))
        v = rng.choice([rng.randrange(0, 200), rng.randrange(lo, hi + 1), rng.randrange(hi, 4 * hi)])
        s = p * rng.choice([1, 1, 1, 2]) + rng.choice(["", "", "+"]) + f.format(v)
        if rng.random() < 0.25 and s:
            k = rng.randrange(len(s) + 1)
            s = s[:k] + rng.choice(["_", " ", "x", "g", "9", "-", "Z"]) + s[k:]
        out.add(s)
    return sorted(out)


def blocksz_denotes(s, consts):
    """independent python reading of what an argument denotes: value or None (malformed)"""
    import re
    for p, r, digs in (("0x", 16, "0-9a-fA-F"), ("0o", 8, "0-7"), ("0b", 2, "01")):
        if s.startswith(p):
            m = re.fullmatch(r"(?:%s)+\+?([%s]+)" % (p, digs), s, flags=re.A)
            return int(m.group(1), r) if m else None
    m = re.fullmatch(r"\+?([0-9]+)", s, flags=re.A)
    return int(m.group(1)) if m else None


def coq_blocksz(args):
    return COQ_HDR + "Definition args : list string := [%s].\nEval vm_compute in (blocksz_check args).\n" % \
        "; ".join('"%s"' % a.encode("utf-8").hex() for a in args)


def edge_long_files(rng, bs):
    """single-notation logs whose FIRST message has a line ending exactly on the last byte of block zero (for block size
    bs), followed by (V1) a continuation line longer than a block, (V2) a dated line longer than a block, (V3) short
    continuation lines; then ordinary messages.  In the accepted domain at bs and at the default size."""
    out = []
    t = rng.randrange(0, 2000)

    def head(t, n):
        st = n_iso(t) + b" |"
        return st + b"h" * (n - len(st) - 1) + b"\n"
    tail = b"".join(n_iso(t + 10 + k) + b" |tail message %d\n" % k + (b" tail continuation\n" if k % 2 else b"") for k in range(4))
    long_n = bs + rng.randrange(1, bs + 1)
    # V1: the head line ends on the edge, a long continuation follows
    out.append((head(t, bs) + b" " + b"c" * (long_n - 2) + b"\n" + tail, "edge-long V1 bs=%d" % bs))
    # V2: head + continuation end on the edge, a long DATED line follows
    h = head(t, 30)
    out.append((h + pad_line(bs - len(h)) + n_iso(t + 1) + b" |" + b"d" * long_n + b"\n" + tail, "edge-long V2 bs=%d" % bs))
    # V3: the head line ends on the edge, short continuation lines follow
    out.append((head(t, bs) + b" short continuation one\n two\n" + tail, "edge-long V3 bs=%d" % bs))
    # V4: as V1 but the long line is the last of the file, without a final newline
    out.append((head(t, bs) + b" " + b"e" * (long_n - 2), "edge-long V4 bs=%d" % bs))
    return out
