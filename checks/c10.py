"""C10 — event-log (.evtx) files: every record once, ordered by creation time, ties in file
order, the window applied to that time; a compressed or archived file prints the same.

A. Coq: Props/C10.v — insert keyed (timestamp, enumeration index) + pop_first = stable sort by
   creation time of the records inside the window, for ALL enumerations and windows.
B. (1) the map logic of EvtxReader::analyze/next (the crate's ts_pass_filters, Events BTreeMap,
   Evtx::from_evtxrs; harness c10) on synthetic (timestamp, index) sequences vs the Coq MODEL;
   (2) EvtxReader itself (new/analyze/next, in-process) on the fixture and on timestamp-patched
   variants vs the MODEL fed with the independent dump's enumeration.
C. the real s4 binary on the fixtures, their shipped .gz/.bz2/.xz/.lz4/.tar copies and
   timestamp-patched variants (ties, permutations) vs the Coq SPEC over the independent dump
   made with the `evtx` crate; every printed record must be the dump's XML of that record and
   carry its own creation time.
"""
import binascii, bz2, gzip, io, json, lzma, os, re, struct, tarfile
from concurrent.futures import ThreadPoolExecutor
import vlib
from vlib import CACHE
import c08_util as U

PROP_FILE = "Props/C10.v"
EVTX_DIR = os.path.join(vlib.REPO, "logs", "programs", "evtx")
FIXTURE = os.path.join(EVTX_DIR, "Microsoft-Windows-Kernel-PnP%4Configuration.evtx")
DT_FMT = "%s.%9f|"
FILETIME_EPOCH = 11644473600        # seconds between 1601-01-01 and 1970-01-01


# ----------------------------------------------------------------------------- evtx patching
def evtx_records(data):
    """offsets of the record headers (magic 2a2a0000, u32 size, u64 id, u64 FILETIME)"""
    offs = []
    pos = 4096
    while pos + 65536 <= len(data) or (pos < len(data) and data[pos:pos + 8] == b"ElfChnk\x00"):
        if data[pos:pos + 8] != b"ElfChnk\x00":
            pos += 65536
            continue
        free = struct.unpack_from("<I", data, pos + 48)[0]
        p = pos + 512
        while p + 24 <= pos + min(free, 65536) and data[p:p + 4] == b"\x2a\x2a\x00\x00":
            size = struct.unpack_from("<I", data, p + 4)[0]
            if size < 24:
                break
            offs.append(p)
            p += size
        pos += 65536
    return offs


def patch_timestamps(data, new_ns):
    """returns a copy of the evtx bytes whose i-th record header carries creation time
    new_ns[i] (ns since the epoch, multiple of 100); chunk checksums are recomputed"""
    b = bytearray(data)
    offs = evtx_records(data)
    assert len(offs) == len(new_ns)
    for o, t in zip(offs, new_ns):
        ft = t // 100 + FILETIME_EPOCH * 10 ** 7
        struct.pack_into("<Q", b, o + 16, ft)
    pos = 4096
    while pos + 512 <= len(b):
        if b[pos:pos + 8] == b"ElfChnk\x00":
            free = struct.unpack_from("<I", b, pos + 48)[0]
            struct.pack_into("<I", b, pos + 52, binascii.crc32(bytes(b[pos + 512:pos + free])) & 0xFFFFFFFF)
            hdr = bytes(b[pos:pos + 120]) + bytes(b[pos + 128:pos + 512])
            struct.pack_into("<I", b, pos + 124, binascii.crc32(hdr) & 0xFFFFFFFF)
        pos += 65536
    return bytes(b)


def swap_chunks(data, i, j):
    """the same evtx bytes with the 64 KiB chunks i and j exchanged (a wrapped / recycled log: the
    parser enumerates chunks in file order, so record ids are no longer ascending in enumeration
    order); a chunk's checksums cover only its own bytes and stay valid"""
    b = bytearray(data)
    oi, oj = 4096 + 65536 * i, 4096 + 65536 * j
    if oj + 65536 > len(b) or b[oi:oi + 8] != b"ElfChnk\x00" or b[oj:oj + 8] != b"ElfChnk\x00":
        return None
    b[oi:oi + 65536], b[oj:oj + 65536] = data[oj:oj + 65536], data[oi:oi + 65536]
    return bytes(b)


def pack(data, name, how):
    if how == "plain":
        return name, data
    if how == "bz2":
        return name + ".bz2", bz2.compress(data)
    return U.container(data, name, how)


# ----------------------------------------------------------------------------- oracle and runs
def dump(path):
    """independent dump: list of (index, id | None, ts_ns | None, xml bytes | None)"""
    rc, out, err = vlib.sh2([vlib.harness_bin("c10dump"), path], timeout=300)
    if rc != 0:
        return None
    rows = []
    ended = False
    for line in out.decode().splitlines():
        v = line.split(" ")
        if v[0] == "R":
            rows.append((int(v[1]), int(v[2]), int(v[3]), bytes.fromhex(v[4])))
        elif v[0] == "E":
            rows.append((int(v[1]), None, None, None))
        elif v[0] == "END":
            ended = True
    return rows if ended else None


def iso_ns(ns):
    return U.iso((ns // 10 ** 9, (ns % 10 ** 9) // 1000))


def run_binary(job):
    path, lo, hi = job
    args = ["--color", "never", "-u", "-d", DT_FMT]
    if lo is not None:
        args += ["-a", iso_ns(lo)]
    if hi is not None:
        args += ["-b", iso_ns(hi)]
    args.append(path)
    return vlib.run_s4(args, timeout=120, env={"TZ": "UTC"})


def parse_output(out):
    """-> (records [(ts_ns of the prepended datetime, xml text, consistent prefix?)], problems)"""
    problems = []
    recs = []
    cur = None
    text = out.decode("utf-8", "replace")
    lines = text.split("\n")
    if lines and lines[-1] == "":
        lines.pop()
    for ln in lines:
        m = re.match(r"^(-?\d+)\.(\d{9})\|:(.*)$", ln, flags=re.S)
        if not m:
            problems.append("line without the prepended datetime: %r" % ln[:100])
            continue
        ts = int(m.group(1)) * 10 ** 9 + int(m.group(2))
        body = m.group(3)
        if body.startswith("<?xml "):
            cur = [ts, [body], True]
            recs.append(cur)
        elif cur is None:
            problems.append("text before the first record: %r" % body[:100])
        else:
            cur[1].append(body)
            if ts != cur[0]:
                cur[2] = False
    return [(r[0], "\n".join(r[1]) + "\n", r[2]) for r in recs], problems


def gen_windows(rng, ts_list, n):
    out = [(None, None, "none")]
    ts = sorted(set(ts_list))
    if not ts:
        return out + [(1, 2, "empty_file_window")]
    for _ in range(n):
        a, b = sorted((rng.choice(ts), rng.choice(ts)))
        r = rng.random()
        if r < 0.35:
            out.append((a, b, "both_on_records"))
        elif r < 0.45:
            out.append((a, None, "after_on_record"))
        elif r < 0.55:
            out.append((None, b, "before_on_record"))
        elif r < 0.65:
            out.append((a, a, "single_instant"))
        elif r < 0.8:
            if a + 1000 <= b - 1000:
                out.append((a + 1000, b - 1000, "one_us_inside"))
            else:
                out.append((a, b, "both_on_records"))
        elif r < 0.9:
            out.append((ts[-1] + 1000, None, "after_all"))
        else:
            out.append((None, ts[0] - 1000, "before_all"))
    return out


def zopt(v):
    return "None" if v is None else "(Some %d%%Z)" % v


HDR = (vlib.COQ_PRINT_HDR + "From Coq Require Import List NArith ZArith.\nImport ListNotations.\n"
       "From S4.Corr Require Import C10.\n")
CASE_TYPES = {"model_bad": "list (option Z * option Z * list (option Z) * list N)",
              "spec_bad": "list (option Z * option Z * list (N * Z) * list N)"}


def coq_eval(ctx, subdir, fn, rows, what):
    if not rows:
        return {}
    shards = vlib.shard(rows, vlib.NCPU)
    texts = [HDR + "Definition cases : %s := [\n%s\n].\nEval vm_compute in (%s cases).\n" % (CASE_TYPES[fn], ";\n".join(r for _, r in sh_), fn)
             for sh_ in shards]
    res = vlib.coq_eval_shards(os.path.join(CACHE, "cases", "C10", subdir), texts)
    bad = {}
    for sh_, (rc, out) in zip(shards, res):
        pairs = vlib.parse_eval_pairs(out) if rc == 0 else None
        if pairs is None:
            ctx.obligation_broken(what, "coqc on generated cases (%s)" % fn, out)
            return None
        for k, code in pairs:
            bad[sh_[k][0]] = code
    return bad


# ----------------------------------------------------------------------------- B1: synthetic sequences
def gen_sequences(rng, n):
    cases = []
    base = 1678420183558721000
    for k in range(n):
        ln = rng.choice([0, 1, 2, 3, 4, 5, 8, 13, 21, 40, 80, 200]) if k % 7 else rng.randrange(0, 30)
        mode = ["sorted", "reversed", "shuffled", "all_equal", "few_values"][k % 5]
        if mode == "all_equal":
            vals = [base] * ln
        elif mode == "few_values":
            pool = [base + 1000 * rng.randrange(0, 4) for _ in range(3)]
            vals = [rng.choice(pool) for _ in range(ln)]
        else:
            vals = sorted(base + 1000 * rng.randrange(0, 2 * ln + 3) for _ in range(ln))
            if mode == "reversed":
                vals.reverse()
            elif mode == "shuffled":
                rng.shuffle(vals)
        seq = [None if rng.random() < 0.07 else v for v in vals]
        present = [v for v in seq if v is not None]
        lo, hi, w = rng.choice(gen_windows(rng, present, 3))
        cases.append((lo, hi, seq, mode, w))
    return cases


def run(ctx):
    quick = ctx.quick()
    rng = ctx.rng
    vlib.proof_stage(ctx, PROP_FILE, ["nogen"], extra_targets=["Corr/C10.vo"])
    okh, log = vlib.build_harness("c10")
    if not okh:
        # the in-process side (B1 map logic, B2 EvtxReader) is tied to s4lib's types; the oracle below is not
        ctx.obligation_broken("build", "harness c10 (in-process EvtxReader / map logic against the current s4lib types)", log)
    okd, logd = vlib.build_harness("c10dump")
    oks, logs = vlib.build_s4()
    if not oks:
        ctx.obligation_broken("build", "s4 binary", logs)
        return ctx.finish()
    if not okd:
        ctx.obligation_broken("oracle", "independent evtx dump unavailable (harness c10dump does not build)", logd)
        return ctx.finish()
    stats = dict(b1_sequences=0, b1_disagreements=0, b2_reader_runs=0, b2_disagreements=0, binary_runs=0,
                 spec_failures=0, records_compared=0, files=0)

    # ---------------- B1
    seqs = gen_sequences(rng, 1200 if quick else 20000)
    lines = ["%s\t%s\t%s" % ("-" if lo is None else lo, "-" if hi is None else hi,
                             ",".join("x" if v is None else str(v) for v in seq)) for lo, hi, seq, _, _ in seqs]
    outl, err = vlib.harness("c10", lines, timeout=900) if okh else (None, "harness c10 does not build")
    if not okh:
        pass            # already reported as a broken build obligation
    elif outl is None or len(outl) != len(lines):
        ctx.obligation_broken("correspondence", "harness c10 (map logic) run", err)
    else:
        rows = []
        for i, ((lo, hi, seq, _, _), o) in enumerate(zip(seqs, outl)):
            if o == "PANIC":
                ctx.obligation_broken("correspondence", "map logic panicked", lines[i][:300])
                continue
            impl = [] if o == "-" else [int(x) for x in o.split(",")]
            rows.append((i, "(%s, %s, [%s], [%s])" % (zopt(lo), zopt(hi), "; ".join("None" if v is None else "Some %d%%Z" % v for v in seq),
                                                     "; ".join("%d%%N" % x for x in impl))))
        bad = coq_eval(ctx, "model_seq", "model_bad", rows, "correspondence")
        stats["b1_sequences"] = len(rows)
        if bad:
            stats["b1_disagreements"] = len(bad)
            i = sorted(bad)[0]
            ctx.obligation_broken("correspondence", "EvtxReader map logic (ts_pass_filters + BTreeMap<(Timestamp, usize)> + pop_first) vs Model.Evtx.evtx_out",
                                  json.dumps(dict(case=lines[i][:600], impl=outl[i][:300], model_count_plus_1=bad[i], disagreements=len(bad))))

    # ---------------- files: fixtures, shipped copies, patched variants
    d = vlib.scratch_dir("C10")
    files = []       # dict(path, plain_path (for dump / reader), label, container)
    base_name = os.path.basename(FIXTURE)
    if os.path.getsize(FIXTURE) > 0:
        files.append(dict(path=FIXTURE, plain=FIXTURE, label="fixture", container="plain"))
        for ext in (".gz", ".bz2", ".xz", ".lz4"):
            p = FIXTURE + ext
            if os.path.exists(p) and os.path.getsize(p) > 0:
                files.append(dict(path=p, plain=FIXTURE, label="fixture", container="shipped" + ext))
        ptar = FIXTURE[:-5] + ".tar"
        if os.path.exists(ptar) and os.path.getsize(ptar) > 0:
            files.append(dict(path=ptar, plain=FIXTURE, label="fixture", container="shipped.tar"))
    ne = os.path.join(EVTX_DIR, "NoEvents.evtx")
    if os.path.exists(ne) and os.path.getsize(ne) > 0:
        files.append(dict(path=ne, plain=ne, label="noevents", container="plain"))
    orig = open(FIXTURE, "rb").read() if os.path.getsize(FIXTURE) > 0 else b""
    nrec = len(evtx_records(orig)) if orig else 0
    variants = []
    if nrec:
        t0 = 1678420183558721000
        variants.append(("all_equal", [t0] * nrec))
        variants.append(("pairs", [t0 + 1000 * (i // 2) for i in range(nrec)]))
        variants.append(("reversed", [t0 + 1000 * (nrec - i) for i in range(nrec)]))
        variants.append(("reversed_pairs", [t0 + 1000 * ((nrec - i) // 3) for i in range(nrec)]))
        sh = [t0 + 1000 * i for i in range(nrec)]
        rng.shuffle(sh)
        variants.append(("shuffled", sh))
        few = [t0 + 1000 * rng.randrange(0, 5) for _ in range(nrec)]
        variants.append(("five_values", few))
        variants.append(("seconds_only", [(t0 // 10 ** 9 + rng.randrange(0, 4)) * 10 ** 9 for _ in range(nrec)]))
        if not quick:
            for k in range(12):
                m = rng.choice([2, 3, 10, 50, nrec])
                variants.append(("random%d" % k, [t0 + 1000 * rng.randrange(0, m) for _ in range(nrec)]))
    # enumeration order != record-id order: chunks exchanged, ties across and inside the exchanged chunks
    swapped = {}
    if nrec:
        nchunks = (len(orig) - 4096) // 65536
        live = [k for k in range(nchunks) if orig[4096 + 65536 * k: 4104 + 65536 * k] == b"ElfChnk\x00"
                and orig[4096 + 65536 * k + 512: 4096 + 65536 * k + 516] == b"\x2a\x2a\x00\x00"]
        pairs = [(a, b) for a in live for b in live if a < b]
        rng.shuffle(pairs)
        for (a, b) in pairs[:1 if quick else 6]:
            sw = swap_chunks(orig, a, b)
            if sw is None or len(evtx_records(sw)) != nrec:
                continue
            for vl, ts in (("all_equal", [t0] * nrec), ("five_values", [t0 + 1000 * rng.randrange(0, 5) for _ in range(nrec)]),
                           ("pairs", [t0 + 1000 * (i // 2) for i in range(nrec)])):
                lab = "swap%d_%d_%s" % (a, b, vl)
                variants.append((lab, ts))
                swapped[lab] = sw
        # records LATER than every container / file-system time the variants are stored with
        tl = 1710000000000000000
        variants.append(("late_pairs", [tl + 1000 * (i // 2) for i in range(nrec)]))
        if not quick:
            variants.append(("late_shuffled", [tl + 1000 * rng.randrange(0, nrec) for i in range(nrec)]))
    conts = ["plain", "gz", "xz", "tar", "bz2"]
    for k, (label, ts) in enumerate(variants):
        blob = patch_timestamps(swapped.get(label, orig), ts)
        sub = os.path.join(d, label)
        os.makedirs(sub, exist_ok=True)
        pp = os.path.join(sub, "v.evtx")
        with open(pp, "wb") as f:
            f.write(blob)
        files.append(dict(path=pp, plain=pp, label=label, container="plain"))
        how = conts[1 + k % 4]
        nm, packed = pack(blob, "v.evtx", how)
        cp = os.path.join(sub, "c")
        os.makedirs(cp, exist_ok=True)
        with open(os.path.join(cp, nm), "wb") as f:
            f.write(packed)
        files.append(dict(path=os.path.join(cp, nm), plain=pp, label=label, container=how))
        if k % 2 == 1 or label.startswith("late"):
            # an OLD modification time (restored / copied files): the window must look at the records, not at it
            for q in (pp, os.path.join(cp, nm)):
                os.utime(q, (1600000000, 1600000000))
    stats["files"] = len(files)

    # ---------------- independent dumps
    dumps = {}
    for f in files:
        if f["plain"] not in dumps:
            dumps[f["plain"]] = dump(f["plain"])
            if dumps[f["plain"]] is None:
                ctx.obligation_broken("oracle", "independent dump of %s failed" % f["plain"], "")
    # the patching must have produced what was asked for (oracle sanity, not a verdict)
    for label, ts in variants:
        dd = dumps.get(os.path.join(d, label, "v.evtx"))
        if dd is not None and [r[2] for r in dd] != ts:
            ctx.obligation_broken("generator", "timestamp patching of the fixture did not take effect (%s)" % label, "")

    # ---------------- B2: EvtxReader in-process vs model
    nwin_plain = 4 if quick else 30
    jobs = []
    for f in files:
        dd = dumps.get(f["plain"])
        if dd is None:
            continue
        tsl = [r[2] for r in dd if r[2] is not None]
        f["windows"] = gen_windows(rng, tsl, nwin_plain if f["container"] == "plain" else max(2, nwin_plain // 2))
        if f["container"] == "plain":
            for lo, hi, w in f["windows"]:
                jobs.append((f, lo, hi, w))

    if not okh:
        jobs = []       # no in-process EvtxReader without the harness

    def run_reader(job):
        f, lo, hi, w = job
        return vlib.sh2([vlib.harness_bin("c10"), "reader", f["plain"], "-" if lo is None else str(lo), "-" if hi is None else str(hi)], timeout=300)
    with ThreadPoolExecutor(max_workers=vlib.NCPU) as ex:
        rres = list(ex.map(run_reader, jobs))
    rows = []
    for i, ((f, lo, hi, w), (rc, out, err)) in enumerate(zip(jobs, rres)):
        dd = dumps[f["plain"]]
        id2idx = {r[1]: r[0] for r in dd if r[1] is not None}
        txt = out.decode()
        if rc != 0 or not txt.rstrip().endswith("END"):
            ctx.obligation_broken("correspondence", "EvtxReader in-process run failed", err.decode("utf-8", "replace")[-500:])
            continue
        impl = [id2idx.get(int(l.split(" ")[1]), 10 ** 9) for l in txt.splitlines() if l.startswith("N ")]
        mx = max([r[0] for r in dd], default=-1)
        seq = {r[0]: r[2] for r in dd}
        rows.append((i, "(%s, %s, [%s], [%s])" % (zopt(lo), zopt(hi),
                                                 "; ".join("None" if seq.get(k) is None else "Some %d%%Z" % seq[k] for k in range(mx + 1)),
                                                 "; ".join("%d%%N" % x for x in impl))))
    bad = coq_eval(ctx, "model_reader", "model_bad", rows, "correspondence")
    stats["b2_reader_runs"] = len(rows)
    if bad:
        stats["b2_disagreements"] = len(bad)
        i = sorted(bad)[0]
        f, lo, hi, w = jobs[i]
        ctx.obligation_broken("correspondence", "EvtxReader (new/analyze/next, in-process) vs Model.Evtx.evtx_out on the dump's enumeration",
                              json.dumps(dict(file=f["label"], lo=lo, hi=hi, window=w, model_count_plus_1=bad[i], disagreements=len(bad))))

    # ---------------- C: the binary vs the spec
    bjobs = []
    for f in files:
        if "windows" not in f:
            continue
        for lo, hi, w in f["windows"]:
            bjobs.append((f, lo, hi, w))
    with ThreadPoolExecutor(max_workers=vlib.NCPU) as ex:
        bres = list(ex.map(run_binary, [(f["path"], lo, hi) for f, lo, hi, w in bjobs]))
    rows, judged = [], {}
    for i, ((f, lo, hi, w), (rc, out, err)) in enumerate(zip(bjobs, bres)):
        dd = dumps[f["plain"]]
        byid = {r[1]: r for r in dd if r[1] is not None}
        problems = []
        if rc == 124:
            problems.append("hang (timeout)")
        elif rc not in (0, 1):
            problems.append("exit status %d" % rc)
        recs, pp = parse_output(out)
        problems += pp[:3]
        impl = []
        for ts, xml, consistent in recs:
            m = re.search(r"<EventRecordID>(\d+)</EventRecordID>", xml)
            r = byid.get(int(m.group(1))) if m else None
            if r is None:
                problems.append("printed record not attributable: %r" % xml[:80])
                impl.append(10 ** 9)
                continue
            impl.append(r[0])
            stats["records_compared"] += 1
            if not consistent or ts != r[2]:
                problems.append("record id %d printed with instant %d, creation time is %d" % (r[1], ts, r[2]))
            if xml.encode() != r[3] + b"\n":
                problems.append("record id %d: printed text differs from the record's XML" % r[1])
        judged[i] = (impl, problems, err[-300:].decode("utf-8", "replace"))
        rows.append((i, "(%s, %s, [%s], [%s])" % (zopt(lo), zopt(hi),
                                                 "; ".join("(%d%%N, %d%%Z)" % (r[0], r[2]) for r in dd if r[2] is not None),
                                                 "; ".join("%d%%N" % x for x in impl))))
    bad = coq_eval(ctx, "spec", "spec_bad", rows, "spec-evaluation")
    if bad is None:
        bad = {}
    stats["binary_runs"] = len(bjobs)
    for i, (f, lo, hi, w) in enumerate(bjobs):
        impl, problems, errtxt = judged[i]
        if i in bad or problems:
            stats["spec_failures"] += 1
            dd = dumps[f["plain"]]
            keep = [r for r in dd if r[2] is not None and (lo is None or lo <= r[2]) and (hi is None or r[2] <= hi)]
            exp = [r[0] for r in sorted(keep, key=lambda r: r[2])]
            ctx.failure(dict(file=f["path"], variant=f["label"], container=f["container"], after_ns=lo, before_ns=hi, window=w,
                             args=["--color", "never", "-u", "-d", DT_FMT] + (["-a", iso_ns(lo)] if lo is not None else []) + (["-b", iso_ns(hi)] if hi is not None else []),
                             variant_timestamps_ns=dict(variants).get(f["label"])),
                        dict(enumeration_indexes_in_order=exp[:400], count=len(exp)),
                        dict(enumeration_indexes_in_order=impl[:400], count=len(impl), problems=problems[:5], stderr=errtxt), [])

    # ---------------- evidence
    def hist(items, f):
        h = {}
        for x in items:
            k = str(f(x))
            h[k] = h.get(k, 0) + 1
        return h
    distinct = set()
    nt = 0
    for lo, hi, seq, mode, w in seqs:
        key = (lo, hi, tuple(seq))
        if key in distinct:
            continue
        distinct.add(key)
        kept = [v for v in seq if v is not None and (lo is None or lo <= v) and (hi is None or v <= hi)]
        if len(kept) >= 2 and (len(set(kept)) < len(kept) or kept != sorted(kept) or lo in kept or hi in kept):
            nt += 1
    for f, lo, hi, w in bjobs:
        key = (f["path"], lo, hi)
        if key in distinct:
            continue
        distinct.add(key)
        dd = dumps[f["plain"]]
        kept = [r[2] for r in dd if r[2] is not None and (lo is None or lo <= r[2]) and (hi is None or r[2] <= hi)]
        if len(kept) >= 2 and (len(set(kept)) < len(kept) or kept != sorted(kept) or lo in kept or hi in kept):
            nt += 1
    ctx.coverage.update(
        evaluations=len(seqs) + len(jobs) + len(bjobs), distinct_nontrivial=nt,
        rule="three kinds of case: (B1) synthetic enumerations of 0-200 (timestamp | undecodable) items in five orderings with a window, through the crate's map logic vs the model; "
             "(B2) EvtxReader in-process on a plain file with a window vs the model on the dump's enumeration; (C) the s4 binary on a file (fixture, shipped .gz/.bz2/.xz/.lz4/.tar copies, "
             "NoEvents.evtx, and copies of the fixture whose record-header creation times were rewritten to produce ties / reversed / shuffled / seconds-only orders, also with two 64 KiB chunks exchanged (record ids not ascending in enumeration order) and with records later than the containers' and files' own modification times, plain and packed by python as gz/xz/tar/bz2) "
             "with a window whose bounds are mostly exactly record times, vs the Coq spec over the independent dump. non-trivial = at least two records kept and (a tie, or enumeration order different from time order, "
             "or a bound equal to a kept record's time); distinct by (input, window)",
        samples=[dict(kind="B1", after_ns=seqs[1][0], before_ns=seqs[1][1], enumeration=seqs[1][2][:12], ordering=seqs[1][3]),
                 dict(kind="C", file=bjobs[0][0]["path"], container=bjobs[0][0]["container"], after_ns=bjobs[0][1], before_ns=bjobs[0][2]) if bjobs else None],
        fixture_records=nrec, variants=[v[0] for v in variants],
        file_container_histogram=hist(files, lambda f: f["container"]),
        binary_window_histogram=hist(bjobs, lambda j: j[3]), sequence_ordering_histogram=hist(seqs, lambda s: s[3]),
        sequence_window_histogram=hist(seqs, lambda s: s[4]),
        traces_validated_against_impl=len(jobs) + len(bjobs) + stats["b1_sequences"], **stats)
    ctx.assumptions += [
        "the `evtx` crate (0.8.5) decodes records correctly; the independent dump and EvtxReader both use it (single-threaded enumeration in the dump, num_threads(0) in EvtxReader)",
        "creation time = the FILETIME of the record header as reported by the crate (record.timestamp); the patched variants rewrite exactly that field (chunk checksums recomputed)",
        "real-file diversity is bounded by the shipped fixtures: one populated .evtx (227 records, 4 chunks) and NoEvents.evtx; ties and permutations come from the patched copies and the synthetic sequences",
        "decoders of .gz/.bz2/.xz/.lz4/.tar are exercised, not modelled (C05)",
    ]
    return ctx.finish()


def replay(ctx, path):
    r = json.load(open(path))
    vlib.build_s4()
    vlib.build_harness("c10")
    bad = 0
    for f in r.get("failures", []):
        c = f["case"]
        p = c["file"]
        if not os.path.exists(p) and c.get("variant_timestamps_ns"):
            d = vlib.scratch_dir("C10")
            base = open(FIXTURE, "rb").read()
            msw = re.match(r"swap(\d+)_(\d+)_", c.get("variant") or "")
            if msw:
                base = swap_chunks(base, int(msw.group(1)), int(msw.group(2)))
            blob = patch_timestamps(base, c["variant_timestamps_ns"])
            nm, packed = pack(blob, "v.evtx", c["container"] if c["container"] in ("plain", "gz", "xz", "tar", "bz2") else "plain")
            p = os.path.join(d, nm)
            open(p, "wb").write(packed)
            os.utime(p, (1600000000, 1600000000))
        rc, out, err = run_binary((p, c["after_ns"], c["before_ns"]))
        recs, pp = parse_output(out)
        ids = [int(m.group(1)) for m in (re.search(r"<EventRecordID>(\d+)</EventRecordID>", x[1]) for x in recs) if m]
        exp = f["expected"]["enumeration_indexes_in_order"]
        got = [i - 1 for i in ids]          # the fixture numbers its records 1.. in enumeration order
        print("replay %s window=%s: expected %d records, printed %d; order equal: %s" % (p, c["window"], f["expected"]["count"], len(ids), got[:400] == exp))
        if got[:400] != exp or pp:
            bad += 1
    if bad:
        print("VIOLATION property=C10 replay=%s" % path)
        return 1
    print("replay: no failure reproduced")
    return 0
