"""C12 — the read block size never changes what is printed.

A. Coq: Props/C12.v (reader_core_bs_independent + block-arithmetic lemmas; the COMPLETE block-zero
   acceptance analysis: gate_accept_spec / gate_independent outside four decidable classes, EZCHECK
   soundness, the analysis as coded on the regenerated row table; refuted witnesses F3a..F3d).
B. tie: in-process readers vs the Coq model at many block sizes (the C02 correspondence on a
   fresh sample, block sizes 1..70); the block-zero analysis in-process (SyslogProcessor stage 0+1:
   result, chosen row + final count, regex_captures_attempted, the nine EZCHECK counters, parse-LRU
   misses; first pass on a bare SyslineReader: found, per-row counts) vs Model/Gate.v gate2 as coded
   (vm_compute) on uniform and MIXED-notation block-zero contents in seven notations; python class
   predicates vs Model/GateSpec.v.
C. failing-input search:
   (1) in-process, EXHAUSTIVE for the stated bound: every file that is a sequence of at most K
       tokens over {dated head "2020-01-01T00:00:01 |", newline, "x", "yz"}, at EVERY block size
       1..|f|+2: every find_line(fo) and find_sysline(fo), fo in 0..|f|, and the stage driver must
       answer exactly as at the reference block size 0x10000 (offsets, instants, bytes);
   (2) the s4 binary at --blocksz 64, 65, 127, 128, 4096, 0x10000, 0xFFFFFF must print what it
       prints at the default.  Differences inside the three recorded classes of the block-zero
       acceptance gate are known findings; any other difference is a violation.
"""
import itertools, json, os, time
import vlib
import lines_util as U
import gate_util as G
import c02 as C02

PROP_FILE = "Props/C12.v"
BIN_BS = [64, 65, 127, 128, 4096, 0x10000, 0xFFFFFF]
TOKENS = [b"2020-01-01T00:00:01 |", b"\n", b"x", b"yz"]
REF_BS = 0x10000


def canon(kind, a):
    if a is None or (isinstance(a, tuple) and a and a[0] == "ERR"):
        return a
    if kind == "L":
        return (a[0], a[1], a[2], a[6])           # fo_next, beg, end, bytes (parts depend on bs)
    if kind == "S":
        return a
    return tuple(a)


def small_files(k_exh, rng, n_extra, k_extra):
    files = []
    for k in range(0, k_exh + 1):
        for seq in itertools.product(range(len(TOKENS)), repeat=k):
            files.append(b"".join(TOKENS[i] for i in seq))
    extra = []
    for _ in range(n_extra):
        k = rng.randrange(k_exh + 1, k_extra + 1)
        extra.append(b"".join(rng.choice(TOKENS) for _ in range(k)))
    return files, extra


def gate2_stage(ctx, rng, scratch, cdir, gconsts, nfiles):
    """B for the complete block-zero analysis.  Returns coverage numbers."""
    res = dict(cases=0, files=0, dis=0, hist={}, classes={}, mixed=0, second_pass=0, ez_checked=0)
    files = [(G.witness_f3d(), "witness F3d")]
    for key in ("F3a", "F3b", "F3c"):
        files.append((U.witnesses()[key][0], "witness " + key))
    files += G.gate_files(rng, nfiles)
    orc, oerr = G.oracle_for([f for f, _ in files], scratch)
    if orc is None:
        ctx.obligation_broken("correspondence", "harness c12 run (oracle)", oerr)
        return res
    # the hypotheses of the EZCHECK theorems, on every observed match
    rows = json.load(open(os.path.join(vlib.ROOT, "coq", "Gen", "datetime_tables.json")))["rows"]
    y4 = {r["index"]: r["year"] == "Y_Y" for r in rows}
    for l, ms in orc.items():
        for row, se, dt, _ in ms:
            sl = l[:se]
            res["ez_checked"] += 1
            d2 = any(48 <= sl[i] <= 57 and 48 <= sl[i + 1] <= 57 for i in range(len(sl) - 1))
            if dt is None or not d2 or (y4.get(row) and not (b"1" in sl or b"2" in sl)):
                ctx.failure(dict(line_hex=l.hex(), row=row, slice_end=se, note="EZCHECK hypothesis"),
                            "a match of the row contains two consecutive digits (and '1' or '2' when the row has a four-digit year)",
                            "row %d matches a slice without them (or panicked)" % row, [])
    s = G.GSession()
    plan = []
    for f, note in files:
        if not f:
            continue
        s.add("F\t" + f.hex())
        sizes = [64, 65, 100, 127, 128, 256, 4096, 8096, 65536]
        pick = rng.sample(sizes, 3)
        if note.startswith("witness"):
            pick = [64, 128, 4096, 65536]
        elif len(f) >= U.SYSLOG_SZ_MAX:
            pick = [rng.choice([64, 128, 4096]), 8096, 65536]
        for bs in pick:
            plan.append((f, note, bs, s.add("G\t%d" % bs), s.add("P\t%d" % bs)))
    out, err = s.run(scratch)
    if out is None:
        ctx.obligation_broken("correspondence", "harness c12 run (analysis)", err)
        return res
    cases = []
    for f, note, bs, gi, pi in plan:
        g, p = G.parse_G(out[gi]), G.parse_P(out[pi])
        if g.get("broken") or g["result"] not in G.GATE_CODES:
            if g["result"] == "PANIC" or g["result"] not in ("ErrNew",):
                ctx.obligation_broken("correspondence", "process_stage1_blockzero_analysis answered %s" % g["result"],
                                      json.dumps(dict(file_hex=f.hex()[:4000], blocksz=bs, note=note)))
            continue
        if p.get("broken"):
            p = dict(found=0, patterns=[], attempted=0, broken=True)
        res["hist"][g["result"]] = res["hist"].get(g["result"], 0) + 1
        cases.append((bs, f, orc, g, p, note))
    res["cases"] = len(cases)
    res["files"] = len(files)
    if not cases:
        return res
    idx = list(range(len(cases)))
    shards = vlib.shard(idx, max(vlib.NCPU, (len(idx) + 79) // 80))     # small shards: each coqc stays small
    texts = [G.coq_gate2_cases([cases[i][:5] for i in sh]) for sh in shards]
    ev = vlib.coq_eval_shards(os.path.join(cdir, "gate2"), texts)
    for sh, (rc, o) in zip(shards, ev):
        trip = vlib.parse_eval_pairs(o) if rc == 0 else None
        if trip is None or len(trip) != len(sh):
            ctx.obligation_broken("correspondence", "model evaluation (complete block-zero analysis, coqc on cases)", o)
            return res
        for k, code, cb in trip:
            bs, f, orc_, g, p, note = cases[sh[k]]
            if p.get("broken"):
                code &= ~(32 | 64)
            pyb = G.class_bits(f, orc, bs, gconsts)
            sa = G.spec_accept(f, orc, gconsts)
            py_cb = pyb + (0 if sa is None else 8 + 1000 * (sa + 1))
            for b_, n_ in ((1, "first-dated-incomplete"), (2, "count-minimum"), (4, "mixed-notation")):
                if cb & b_:
                    res["classes"][n_] = res["classes"].get(n_, 0) + 1
            if cb & 4:
                res["mixed"] += 1
            if len(p["patterns"]) > 1:
                res["second_pass"] += 1
            if code:
                res["dis"] += 1
                if res["dis"] <= 3:
                    ctx.obligation_broken("correspondence", "SyslogProcessor block-zero analysis vs Model.Gate.gate2: " + "; ".join(G.bit_names(code)),
                                          json.dumps(dict(file_hex=f.hex()[:4000], file_len=len(f), blocksz=bs, note=note, code=code,
                                                          impl=dict(result=g["result"], patterns=g["patterns"], attempted=g["attempted"], ez=g["ez"],
                                                                    lru=g["lru"], pass1=p))))
            if py_cb != cb:
                res["dis"] += 1
                ctx.obligation_broken("correspondence", "python class predicates (gate_util.class_bits / spec_accept) vs Model/GateSpec.v",
                                      json.dumps(dict(file_hex=f.hex()[:4000], blocksz=bs, python=py_cb, coq=cb, note=note)))
            # the proved theorem, observed: outside the classes the implementation accepts exactly spec_accept with that row
            if not (cb & 7) and 64 <= bs:
                impl_acc = g["patterns"][0][0] if (g["result"] == "FileOk" and len(g["patterns"]) == 1) else None
                if impl_acc != sa:
                    ctx.failure(dict(file_hex=f.hex() if len(f) <= 4096 else None, file_len=len(f), blocksz=bs, note=note, inprocess=True),
                                "accepted with row %s (spec_accept, bs-free)" % sa,
                                "%s, patterns %s" % (g["result"], g["patterns"]), [])
    return res


def instants_stage(ctx, rng, scratch, gconsts, sweeps, nsmall):
    """C, in-process: the INSTANT (ns) attributed to every message must not depend on the block size.
    T = SyslogProcessor as exec_syslogprocessor drives it (one pattern after the analysis), every bs 64..|f|+2 on small
    files and around the design size on the edge-sweep files; R = bare SyslineReader (all patterns), every bs 1..|f|+2."""
    out_cov = dict(instant_files=0, instant_runs=0, instant_messages_compared=0, instant_differences=0)
    small = []
    for _ in range(nsmall * 3):
        f, note = G.small_frac_file(rng)
        if len(f) <= 700:
            small.append((f, "small-frac " + note))
        if len(small) >= nsmall:
            break
    allf = small + [(f, note) for f, b_, note in sweeps if len(f) <= 20000]
    orc, oerr = G.oracle_for([f for f, _ in allf], scratch)
    if orc is None:
        ctx.obligation_broken("correspondence", "harness c12 run (oracle, instants stage)", oerr)
        return out_cov
    s = G.GSession()
    plan = []
    design = {f: b_ for f, b_, _ in sweeps}
    for f, note in allf:
        if not G.uniform(f, orc):
            continue                                  # outside the single-notation domain
        s.add("F\t" + f.hex())
        n = len(f)
        if f in design:
            b_ = design[f]
            tb = sorted(set([b_, b_ + 1, max(64, b_ - 1), 2 * b_, 3 * b_ + 1]))
            rb = sorted(set([b_, b_ + 1, b_ - 1, 2 * b_, 33, 17])) if n <= 6000 else []
        else:
            tb = list(range(64, n + 3))
            rb = list(range(1, n + 3))
        rows = [("T", REF_BS, s.add("T\t%d" % REF_BS)), ("R", REF_BS, s.add("R\t%d" % REF_BS))]
        rows += [("T", b, s.add("T\t%d" % b)) for b in tb] + [("R", b, s.add("R\t%d" % b)) for b in rb]
        plan.append((f, note, rows))
    out, err = s.run(scratch, timeout=900)
    if out is None:
        ctx.obligation_broken("correspondence", "harness c12 run (instants stage)", err)
        return out_cov
    for f, note, rows in plan:
        out_cov["instant_files"] += 1
        ref = {}
        for kind, b, i in rows:
            st, items = G.parse_items_ns(out[i])
            out_cov["instant_runs"] += 1
            if b == REF_BS and kind not in ref:
                ref[kind] = (st, items)
                continue
            rst, ritems = ref[kind]
            out_cov["instant_messages_compared"] += len(items)
            if (st, items) == (rst, ritems):
                continue
            cls = []
            if kind == "T" and st != rst and st in G.GATE_CODES and rst in G.GATE_CODES:
                cls = G.class_names(f, orc, b if st != "FileOk" else REF_BS, gconsts)
            out_cov["instant_differences"] += 1
            if out_cov["instant_differences"] <= 10:
                k = next((j for j, (a_, b_) in enumerate(zip(ritems, items)) if a_ != b_), None)
                ctx.failure(dict(file_hex=f.hex() if len(f) <= 8192 else None, file_len=len(f), note=note, blocksz=b,
                                 instants=kind, reference_blocksz=REF_BS),
                            "%s at %d: %s, %d messages%s" % (kind, REF_BS, rst, len(ritems), "" if k is None else ", message %d = (begin, end, ns) %s" % (k, ritems[k])),
                            "%s at %d: %s, %d messages%s" % (kind, b, st, len(items), "" if k is None else ", message %d = %s" % (k, items[k])), cls)
    return out_cov


def blocksz_stage(ctx, rng, scratch, cdir, gconsts, n_random):
    """the --blocksz argument: binary (exit status; `block size` line of --summary) vs Model/BlockszArg.v (B, vm_compute)
    and vs an independent python reading of what the argument denotes + the permitted range (C)."""
    import re, concurrent.futures
    cov = dict(blocksz_args=0, blocksz_accepted=0, blocksz_rejected=0, blocksz_model_disagreements=0, blocksz_spec_differences=0)
    args = G.blocksz_args(rng, gconsts, n_random)
    path = os.path.join(scratch, "blocksz.log")
    with open(path, "wb") as fh:
        fh.write(b"2020-01-01T00:00:01 hello\n2020-01-01T00:00:02 hello\n")

    def run1(a):
        rc, o, e = vlib.run_s4(["--color", "never", "--summary", "--blocksz=" + a, path], timeout=60, env={"TZ": "UTC"})
        m = re.search(rb"block size\s*:\s*(\d+) \(0x([0-9A-Fa-f]+)\)", e)
        if rc == 0 and m and int(m.group(1)) == int(m.group(2), 16) and len(o) == 52:
            return int(m.group(1))
        if rc == 2 and b"invalid value" in e and o == b"":
            return None
        return ("odd", rc, e[-300:].decode("utf-8", "replace"))
    with concurrent.futures.ThreadPoolExecutor(max_workers=max(2, vlib.NCPU // 2)) as ex:
        impl = list(ex.map(run1, args))
    res = vlib.coq_eval_shards(os.path.join(cdir, "blocksz"), [G.coq_blocksz(args)])
    pairs = vlib.parse_eval_pairs(res[0][1]) if res[0][0] == 0 else None
    if pairs is None or len(pairs) != len(args):
        ctx.obligation_broken("correspondence", "model evaluation (--blocksz argument, coqc)", res[0][1])
        pairs = []
    lo, hi = max(gconsts["blocksz_min"], gconsts["sp_blocksz_min"]), gconsts["blocksz_max"]
    for k, (a, r) in enumerate(zip(args, impl)):
        cov["blocksz_args"] += 1
        if isinstance(r, tuple):
            ctx.failure(dict(blocksz_arg=a), "exit 0 with a `block size` summary line and the file printed, or exit 2 `invalid value` and nothing printed",
                        "rc=%s %s" % (r[1], r[2]), [])
            continue
        cov["blocksz_accepted" if r is not None else "blocksz_rejected"] += 1
        if pairs:
            mv = None if pairs[k][1] == 0 else pairs[k][1] - 1
            if mv != r:
                cov["blocksz_model_disagreements"] += 1
                ctx.obligation_broken("correspondence", "cli_process_blocksz (binary) vs Model.BlockszArg.process_blocksz",
                                      json.dumps(dict(arg=a, binary=r, model=mv)))
        d = G.blocksz_denotes(a, gconsts)
        want = d if (d is not None and lo <= d <= hi) else None
        if want != r:
            cov["blocksz_spec_differences"] += 1
            ctx.failure(dict(blocksz_arg=a), "denotes %s; permitted %d..%d -> %s" % (d, lo, hi, "block size %s" % want if want is not None else "rejected (exit 2)"),
                        "block size %s" % r if r is not None else "rejected", [])
    return cov


def run(ctx):
    quick = ctx.quick()
    rng = ctx.rng
    t_stage = {}
    t0 = time.time()
    consts = U.consts_from_repo()
    if consts.get("SYSLOG_SZ_MAX") != U.SYSLOG_SZ_MAX or consts.get("BLOCKSZ_DEF") != U.BLOCKSZ_DEF:
        ctx.obligation_broken("translator", "constants used by the class predicates changed", json.dumps(consts))
    # ---- A
    vlib.build_s4()        # before the proof stage: generator `blocks` probes the binary for the --blocksz forms (keeps the Coq lock short)
    vlib.proof_stage(ctx, PROP_FILE, ["blocks", "datetime", "regexes"], extra_targets=["Corr/C02.vo", "Props/C02.vo", "Corr/C12.vo"])
    okh, logh = vlib.build_harness("c02")
    okg, logg = vlib.build_harness("c12")
    oks, logs = vlib.build_s4()
    if not okh or not oks or not okg:
        ctx.obligation_broken("build", "harness c02" if not okh else "harness c12" if not okg else "s4 binary",
                              (logh if not okh else logg if not okg else logs))
        return ctx.finish()
    gconsts = G.consts_from_gen()
    if gconsts.get("datetime_str_min") != G.DATETIME_STR_MIN or gconsts.get("syslog_sz_max") != U.SYSLOG_SZ_MAX:
        ctx.obligation_broken("translator", "constants used by the python class predicates differ from coq/Gen/BlockConsts.v", json.dumps(gconsts))
    scratch = vlib.scratch_dir("C12")
    cdir = os.path.join(vlib.CACHE, "cases", "C12")
    t_stage["A proofs+builds"] = round(time.time() - t0, 1); t0 = time.time()

    # ---- B: model correspondence at many block sizes
    cases = C02.inproc_cases(rng, 120 if quick else 2500)
    answers = C02.run_inproc(ctx, cases, scratch)
    n_ops_b = model_dis = 0
    if answers is not None:
        mcases = []
        for (bs, f, tab, ops), ans in zip(cases, answers):
            texts = C02.op_texts(ops, ans)
            n_ops_b += len(texts)
            mcases.append((bs, f, tab, [t for t in texts if t is not None]))
        bad = U.eval_shards(ctx, os.path.join(cdir, "model"), U.coq_model_cases, mcases, "model evaluation")
        if bad:
            model_dis = len(bad)
            sh, k, c = bad[0]
            ci = sh[k // 1000]
            bs, f, tab, ops = cases[ci]
            ctx.obligation_broken("correspondence", "LineReader/SyslineReader/driver vs Model find_line_m/find_sysline_m/stream_m",
                                  json.dumps(dict(file_hex=f.hex(), blocksz=bs, ops=[list(x) for x in ops], op_index=k % 1000,
                                                  code=c, impl=repr(answers[ci]), disagreements=len(bad))))

    t_stage["B readers vs model"] = round(time.time() - t0, 1); t0 = time.time()
    # ---- B (gate model): process_stage1_blockzero_analysis vs Model/Gate.v at permitted sizes
    gs = U.Session()
    gidx = []
    for k in range(60 if quick else 2500):
        hint = rng.choice([64, 64, 128, 16, 32])
        f, tab, lines = U.gen_file(rng, hint, nmsg=rng.choice([0, 1, 2, 3, 5]), wild=rng.random() < 0.5,
                                   maxlen=rng.choice([None, 40, 200]))
        if rng.random() < 0.1:
            f = b"\x00" * rng.choice([5, 63, 127, 128, 130]) + b"\n" + f
        if k % 50 == 7:      # block zero >= SYSLOG_SZ_MAX bytes: the 3-lines / 2-syslines thresholds
            f, tab, lines = U.gen_file(rng, 2800, nmsg=rng.choice([1, 2, 3]), wild=False, lead=0, maxlen=4100)
        if not f or len(f) > 12000:
            continue
        gs.add("F\t" + f.hex())
        for bs in rng.sample([64, 65, 100, 127, 128, 256, 4096, 8096, 65536], 3):
            gs.add("B\t%d" % bs)
            gidx.append((bs, f, tab, gs.add("D")))
    for f, tab, note in U.nul_heavy_files(rng, 3 if quick else 30):
        gs.add("F\t" + f.hex())
        for bs in (64, 128, 65536):
            gs.add("B\t%d" % bs)
            gidx.append((bs, f, tab, gs.add("D")))
    gout, gerr = gs.run(scratch)
    gate_cases, gate_hist, gate_dis = [], {}, 0
    if gout is None:
        ctx.obligation_broken("correspondence", "harness c02 run (gate)", gerr)
    else:
        for bs, f, tab, i in gidx:
            name = gout[i].split("\t")[1]
            gate_hist[name] = gate_hist.get(name, 0) + 1
            if name not in U.GATE_CODES:
                ctx.obligation_broken("correspondence", "blockzero_analysis returned %s" % name, json.dumps(dict(file_hex=f.hex()[:4000], blocksz=bs)))
                continue
            gate_cases.append((bs, f, tab, U.GATE_CODES[name]))
        gbad = U.eval_shards(ctx, os.path.join(cdir, "gate"), U.coq_gate_cases, gate_cases, "model evaluation (gate)")
        if gbad:
            gate_dis = len(gbad)
            sh, k, c = gbad[0]
            bs, f, tab, code = gate_cases[sh[k]]
            ctx.obligation_broken("correspondence", "process_stage1_blockzero_analysis vs Model.Gate.gate",
                                  json.dumps(dict(file_hex=f.hex()[:4000], file_len=len(f), blocksz=bs, impl_code=code, model_code=c,
                                                  disagreements=len(gbad))))

    t_stage["B single-oracle gate"] = round(time.time() - t0, 1); t0 = time.time()
    # ---- B (complete analysis): SyslogProcessor stage 0+1 and its counters vs Model/Gate.v gate2 as coded
    g2 = gate2_stage(ctx, rng, scratch, cdir, gconsts, 70 if quick else 1500)

    t_stage["B complete analysis"] = round(time.time() - t0, 1); t0 = time.time()
    # ---- C1: exhaustive small files, every block size, in-process
    K = 3 if quick else 5
    exh, extra = small_files(K, rng, 40 if quick else 300, K + 3)
    all_small = exh + extra
    s = U.Session()
    plan = []                       # (file index, bs, [(kind, fo, cmd index)])
    for fi, f in enumerate(all_small):
        s.add("F\t" + f.hex())
        n = len(f)
        for bs in [REF_BS] + list(range(1, n + 3)):
            s.add("B\t%d" % bs)
            ops = [("L", fo) for fo in range(n + 1)] + [("S", fo) for fo in range(n + 1)]
            if bs != REF_BS:
                rng.shuffle(ops)                      # a different cache history at every block size
                ops += [rng.choice(ops) for _ in range(3)] if ops else []
            ops.append(("R", None))
            row = []
            for kind, fo in ops:
                row.append((kind, fo, s.add("%s\t%s" % (kind, "" if fo is None else fo))))
            plan.append((fi, bs, row))
    out, err = s.run(scratch, timeout=1500)
    c1_ops = c1_diff = 0
    bs_seen = set()
    if out is None:
        ctx.obligation_broken("correspondence", "harness c02 run (exhaustive small files)", err)
    else:
        ref = {}
        for fi, bs, row in plan:
            for kind, fo, i in row:
                a = U.parse_L(out[i]) if kind == "L" else U.parse_S(out[i]) if kind == "S" else U.parse_R(out[i])
                c1_ops += 1
                if bs == REF_BS:
                    ref[(fi, kind, fo)] = canon(kind, a)
                else:
                    bs_seen.add(bs)
                    if canon(kind, a) != ref[(fi, kind, fo)]:
                        c1_diff += 1
                        if c1_diff <= 20:
                            ctx.failure(dict(file_hex=all_small[fi].hex(), blocksz=bs, op=[kind, fo], reference_blocksz=REF_BS),
                                        repr(ref[(fi, kind, fo)]), repr(canon(kind, a)), [])

    t_stage["C1 exhaustive in-process"] = round(time.time() - t0, 1); t0 = time.time()
    # ---- C2: the binary at every permitted size class vs the default
    files = []
    for key in ("F3a", "F3b", "F3c"):
        f, tab, bs = U.witnesses()[key]
        files.append((f, tab, "witness " + key, [64, 4096] if key != "F3c" else [4096, 0xFFFFFF]))
    for f, tab, note in U.nul_heavy_files(rng, 3 if quick else 40):
        files.append((f, tab, note, [64, 128, 4096] if quick else BIN_BS))
    for f, tab, note in C02.binary_files(rng, 14 if quick else 150):
        files.append((f, tab, note, BIN_BS if not quick else rng.sample(BIN_BS, 4)))
    # files whose first dated line is complete inside the smallest block: the accepted domain
    for k in range(10 if quick else 120):
        f, tab, lines = U.gen_file(rng, rng.choice([64, 128, 4096]), nmsg=rng.choice([3, 5, 9]), lead=0, wild=True)
        head = U.ts(0) + b" |first\n"
        tab = dict(tab); tab[head] = U.instant(0)
        files.append((head + f, tab, "accepted-domain", BIN_BS if not quick else rng.sample(BIN_BS, 4)))
    # uniform files in the other notations and MIXED-notation files (F3d class), incl. the F3d witness
    cdir_corpus = os.path.join(vlib.ROOT, "corpus", "C12")
    for name in sorted(os.listdir(cdir_corpus)) if os.path.isdir(cdir_corpus) else []:
        if name.endswith(".log"):
            files.append((open(os.path.join(cdir_corpus, name), "rb").read(), None, "corpus/C12/" + name, [64, 128, 4096, 0xFFFFFF]))
    for f, note in G.gate_files(rng, 14 if quick else 200):
        files.append((f, None, "gate:" + note, [64, 128, 4096] if quick else BIN_BS))
    if not quick:
        for k in range(4):
            f, tab, lines = U.gen_file(rng, 0x10000, nmsg=4, lead=0, wild=True)
            head = U.ts(0) + b" |first\n" + U.ts(0) + b" |second\n \n"
            tab = dict(tab); tab[U.ts(0) + b" |first\n"] = U.instant(0); tab[U.ts(0) + b" |second\n"] = U.instant(0)
            files.append((head + f, tab, "around-default-blocksz", BIN_BS))
    # instants across block edges: single-notation logs with 1..9 fractional digits / zone forms of several lengths in
    # which, for the design block size, an edge falls at every position of some later line's timestamp
    sweep_plan = [(64, None), (65, None), (127, None), (128, None), (4096, None)] if quick else \
                 [(b_, (st_, z_)) for b_ in (64, 65, 127, 128, 256, 4096) for st_ in ("iso", "space", "bracket")
                  for z_ in (G.ZONE_FORMS if st_ != "bracket" else [b""])]
    sweeps = []
    for b_, sz in sweep_plan:
        st_, z_ = sz if sz else (rng.choice(G.FRAC_STYLES), rng.choice(G.ZONE_FORMS))
        f = G.sweep_file(rng, b_, st_, z_ if st_ != "bracket" else b"")
        sweeps.append((f, b_, "edge-sweep bs=%d %s zone=%r" % (b_, st_, z_.decode())))
        files.append((f, None, sweeps[-1][2], sorted(set([b_, b_ + 1, max(64, b_ - 1), 2 * b_, 0x10000]))))
    # a line of the first message ends exactly on the last byte of block zero; a line longer than a block (or short
    # continuation lines) follows
    for b_ in (64, 65, 127, 128, 4096):
        for f, note in G.edge_long_files(rng, b_):
            sweeps.append((f, b_, note))
            files.append((f, None, note, sorted(set([b_, b_ + 1, max(64, b_ - 1), 0x10000]))))
    VARIANTS = [("plain", []), ("instants", ["-u", "-d", G.DT_FORMAT])]
    bin_runs = bin_diff = 0
    nontrivial = set()
    tasks = []
    for fi, (f, tab, note, bss) in enumerate(files):
        if len(f) <= consts["FILE_TOO_SMALL_SZ"]:
            continue
        path = os.path.join(scratch, "b%04d.log" % fi)
        with open(path, "wb") as fh:
            fh.write(f)
        for vn, va in VARIANTS:
            for bs in [None] + list(bss):
                tasks.append((fi, vn, bs, path, va))

    def run_task(t):
        fi, vn, bs, path, va = t
        args = ["--color", "never"] + va + (["--blocksz", str(bs)] if bs is not None else []) + [path]
        return vlib.run_s4(args, timeout=120, env={"TZ": "UTC"})
    import concurrent.futures
    with concurrent.futures.ThreadPoolExecutor(max_workers=max(2, vlib.NCPU // 2)) as ex:
        results = list(ex.map(run_task, tasks))
    res = {(t[0], t[1], t[2]): r for t, r in zip(tasks, results)}
    bin_runs = len(tasks)
    instants_lines = 0
    for fi, (f, tab, note, bss) in enumerate(files):
        if (fi, "plain", None) not in res:
            continue
        path = os.path.join(scratch, "b%04d.log" % fi)
        failed_here = False
        for bs in bss:
            off = 0
            for l in U.py_lines(f):
                en = off + len(l) - 1
                if off % bs in (0, 1, bs - 1) or en % bs in (0, 1, bs - 1) or off // bs != en // bs:
                    nontrivial.add((bs, f))
                off += len(l)
            for vn, va in VARIANTS:
                rc0, out0, err0 = res[(fi, vn, None)]
                rc, o, e = res[(fi, vn, bs)]
                if vn == "instants":
                    instants_lines += o.count(b"\n")
                if rc == 124 or o != out0 or rc != rc0:
                    if vn == "instants" and res[(fi, "plain", bs)][1] != res[(fi, "plain", None)][1]:
                        continue                      # already reported by the plain variant
                    bin_diff += 1
                    failed_here = True
                    cls = []
                    # classes from the per-row oracle of the real patterns (harness c12 `M` on the file's lines)
                    orc, oerr = G.oracle_for([f], scratch)
                    if orc is None:
                        ctx.obligation_broken("correspondence", "harness c12 run (oracle of a differing file)", oerr)
                        orc = {}
                    if rc != 124 and rc == rc0:
                        if o == b"" and out0 != b"":
                            cls = G.class_names(f, orc, bs, gconsts)
                        elif out0 == b"" and o != b"":
                            cls = G.class_names(f, orc, U.BLOCKSZ_DEF, gconsts)
                        else:
                            # both sizes print, differently: only a different CHOSEN ROW (F3d) explains it
                            cls = [c for c in set(G.class_names(f, orc, bs, gconsts) + G.class_names(f, orc, U.BLOCKSZ_DEF, gconsts))
                                   if c == G.CLASS_F3D]
                    first_diff = next((i for i, (a_, b_) in enumerate(zip(out0.split(b"\n"), o.split(b"\n"))) if a_ != b_), None)
                    ctx.failure(dict(file_hex=f.hex() if len(f) <= 8192 else None, file_len=len(f), note=note, blocksz=bs,
                                     options=va, first_differing_output_line=first_diff,
                                     dated={k_.hex(): v for k_, v in list((tab or {}).items())[:8]}, replay_file=path),
                                "stdout at the default block size (%s): rc=%s, %d bytes%s" % (vn, rc0, len(out0),
                                    "" if first_diff is None else ", line %d = %r" % (first_diff, out0.split(b"\n")[first_diff][:80])),
                                "stdout at --blocksz %d (%s): rc=%s, %d bytes%s" % (bs, vn, rc, len(o),
                                    "" if first_diff is None else ", line %d = %r" % (first_diff, o.split(b"\n")[first_diff][:80])), cls)
        if not failed_here and not ctx.failures:
            os.remove(path)
    t_stage["C2 binary"] = round(time.time() - t0, 1); t0 = time.time()
    c3 = instants_stage(ctx, rng, scratch, gconsts, sweeps, 10 if quick else 60)
    t_stage["C3 in-process instants"] = round(time.time() - t0, 1); t0 = time.time()
    c4 = blocksz_stage(ctx, rng, scratch, cdir, gconsts, 40 if quick else 2000)
    t_stage["C4 --blocksz argument"] = round(time.time() - t0, 1)
    for fi, bs, row in plan:
        if bs != REF_BS:
            nontrivial.add((bs, all_small[fi]))
    ctx.coverage.update(
        evaluations=n_ops_b + len(gate_cases) + g2["cases"] + c1_ops + bin_runs,
        distinct_nontrivial=len(nontrivial),
        exhaustive=(out is not None),
        rule="(1) in-process, exhaustive: ALL %d files that are sequences of 0..%d tokens over {\"2020-01-01T00:00:01 |\", newline, \"x\", \"yz\"} "
             "(plus %d random longer token files, up to %d tokens), each at EVERY block size 1..|f|+2 and at the reference size 0x10000: every find_line(fo) and "
             "find_sysline(fo) for fo in 0..|f| (shuffled, with repeats, on one reader instance) and the stage driver; the answers (offsets, instant, bytes) must equal "
             "those at the reference size. exhaustive=true refers to exactly this bound (token sequences of length <= %d x all block sizes 1..|f|+2 x all offsets). "
             "(2) model correspondence on generated logs at block sizes 1..70 (as C02). (3) the s4 binary on generated logs and the three witness files at --blocksz "
             "64,65,127,128,4096,0x10000,0xFFFFFF vs the default. non-trivial = distinct (block size, file) pairs with block size != reference (in-process) or in which a "
             "line starts/ends within +-1 of a block edge or spans >= 2 blocks (binary)" % (len(exh), K, len(extra), K + 3, K),
        samples=[dict(file=all_small[i].decode("latin1"), blocksizes="1..%d and 65536" % (len(all_small[i]) + 2)) for i in (5, len(exh) - 1, len(all_small) - 1)],
        exhaustive_files=len(exh), extra_files=len(extra), inprocess_operations_exhaustive=c1_ops,
        inprocess_blocksizes=len(bs_seen), inprocess_differences=c1_diff,
        model_operations=n_ops_b, model_disagreements=model_dis,
        gate_model_cases=len(gate_cases), gate_model_disagreements=gate_dis, gate_result_histogram=gate_hist,
        gate2_cases=g2["cases"], gate2_files=g2["files"], gate2_disagreements=g2["dis"], gate2_result_histogram=g2["hist"],
        gate2_class_histogram=g2["classes"], gate2_mixed_cases=g2["mixed"], gate2_second_pass_cases=g2["second_pass"],
        gate2_ezcheck_matches_checked=g2["ez_checked"], gate2_notations=[nf.__name__ for nf in G.NOTATIONS],
        binary_runs=bin_runs, binary_files=len(files), binary_differences=bin_diff, binary_variants=[v for v, _ in VARIANTS],
        binary_instant_lines_compared=instants_lines, edge_sweep_files=len(sweeps), **c3, **c4, stage_seconds=t_stage)
    ctx.assumptions += [
        "`dated` oracle and unmodelled caches as for C02",
        "block-zero acceptance: per-row / per-slice match oracle (the regex engine); the two EZCHECK hypotheses ('1' or '2' in a match of a four-digit-year row, two adjacent digits in a match of a has_d2 row) are PROVED for the regex model of C04 on all 173 regenerated ASTs (ezcheck_rows_discharged) and additionally validated on every observed match of the real engine; check_store of find_sysline_in_block is not modelled (it always misses in the call sequence of the analysis)",
        "the four block-size dependent classes of the acceptance analysis are the known findings F3a, F3b, F3c, F3d (class predicates: gate_util.class_names = Model/GateSpec.v, cross-checked on every B case)",
        "block sizes above |f|+2 behave as one block (the file is a single short block): sampled at 0x10000 in-process and up to 0xFFFFFF on the binary",
    ]
    return ctx.finish()


def replay(ctx, path):
    r = json.load(open(path))
    vlib.build_harness("c02"); vlib.build_harness("c12"); vlib.build_s4()
    scratch = vlib.scratch_dir("C12r")
    rc_all = 0
    for fl in r.get("failures", []):
        c = fl["case"]
        if "blocksz_arg" in c:
            p = os.path.join(scratch, "blocksz.log")
            open(p, "wb").write(b"2020-01-01T00:00:01 hello\n2020-01-01T00:00:02 hello\n")
            rc, o, e = vlib.run_s4(["--color", "never", "--summary", "--blocksz=" + c["blocksz_arg"], p], timeout=60, env={"TZ": "UTC"})
            bl = [l for l in e.decode("utf-8", "replace").splitlines() if "block size" in l or "invalid value" in l]
            print("replay --blocksz=%r: rc=%s %s ; expected: %s" % (c["blocksz_arg"], rc, bl[:1], fl.get("expected")))
            rc_all = 1
            continue
        if c.get("note") == "EZCHECK hypothesis":
            gs = G.GSession(); gs.add("M\t" + c["line_hex"])
            out, err = gs.run(scratch)
            print("replay oracle of line %s: %s" % (c["line_hex"], out[0] if out else err))
            rc_all = 1
            continue
        if c.get("file_hex") is None:
            print("replay: file not embedded (len %s); see %s" % (c.get("file_len"), c.get("replay_file")))
            continue
        f = bytes.fromhex(c["file_hex"])
        if c.get("instants") in ("T", "R"):
            gs = G.GSession(); gs.add("F\t" + f.hex())
            gs.add("%s\t%d" % (c["instants"], c["reference_blocksz"])); gs.add("%s\t%d" % (c["instants"], c["blocksz"]))
            out, err = gs.run(scratch)
            a, b = (G.parse_items_ns(out[1]), G.parse_items_ns(out[2])) if out else (None, None)
            print("replay in-process instants (%s): at %d -> %s, %s messages ; at %d -> %s, %s messages ; equal=%s" %
                  (c["instants"], c["reference_blocksz"], a and a[0], a and len(a[1]), c["blocksz"], b and b[0], b and len(b[1]), a == b))
            if a != b or out is None:
                rc_all = 1
            continue
        if c.get("inprocess"):
            gs = G.GSession(); gs.add("F\t" + f.hex()); gs.add("G\t%d" % c["blocksz"]); gs.add("G\t%d" % REF_BS)
            out, err = gs.run(scratch)
            print("replay in-process block-zero analysis: --blocksz %d -> %s ; %d -> %s ; expected %s" %
                  (c["blocksz"], out[1] if out else err, REF_BS, out[2] if out else err, fl.get("expected")))
            rc_all = 1
            continue
        if "op" in c:
            s = U.Session()
            s.add("F\t" + f.hex())
            for bs in (c["reference_blocksz"], c["blocksz"]):
                s.add("B\t%d" % bs)
                s.add("%s\t%s" % (c["op"][0], "" if c["op"][1] is None else c["op"][1]))
            out, err = s.run(scratch)
            print("replay in-process op=%s: at %d -> %s ; at %d -> %s" % (c["op"], c["reference_blocksz"], out[2] if out else err, c["blocksz"], out[4] if out else err))
            a, b = (out[2], out[4]) if out else (None, None)
            ka = canon(c["op"][0], U.parse_L(a) if c["op"][0] == "L" else U.parse_S(a) if c["op"][0] == "S" else U.parse_R(a)) if out else None
            kb = canon(c["op"][0], U.parse_L(b) if c["op"][0] == "L" else U.parse_S(b) if c["op"][0] == "S" else U.parse_R(b)) if out else None
            if ka != kb:
                rc_all = 1
        else:
            p = os.path.join(scratch, "replay.log")
            open(p, "wb").write(f)
            opt = ["--color", "never"] + list(c.get("options") or [])
            rc0, o0, e0 = vlib.run_s4(opt + [p], timeout=120, env={"TZ": "UTC"})
            rc1, o1, e1 = vlib.run_s4(opt + ["--blocksz", str(c["blocksz"]), p], timeout=120, env={"TZ": "UTC"})
            print("replay binary file_len=%d: default -> %d bytes, --blocksz %d -> %d bytes" % (len(f), len(o0), c["blocksz"], len(o1)))
            if o0 != o1:
                rc_all = 1
    if rc_all:
        print("VIOLATION property=C12 replay=%s" % path)
    return rc_all
