//! s4verif — shared helpers of the in-process correspondence binaries.
//! One binary per property lives in src/bin/<id>.rs: it reads cases on stdin (one per
//! line, TAB separated, byte strings in hex) and writes one canonical result line per
//! case on stdout.  Case generation, the Coq side and the comparison live in /verif/checks.
#![allow(dead_code)]

pub fn unhex(s: &str) -> Vec<u8> {
    let b = s.as_bytes();
    let mut out = Vec::with_capacity(b.len() / 2);
    let v = |c: u8| -> u8 {
        match c {
            b'0'..=b'9' => c - b'0',
            b'a'..=b'f' => c - b'a' + 10,
            b'A'..=b'F' => c - b'A' + 10,
            _ => 0,
        }
    };
    let mut i = 0;
    while i + 1 < b.len() {
        out.push(v(b[i]) * 16 + v(b[i + 1]));
        i += 2;
    }
    out
}

pub fn hex(b: &[u8]) -> String {
    let mut s = String::with_capacity(b.len() * 2);
    for x in b {
        s.push_str(&format!("{:02x}", x));
    }
    s
}

pub fn stdin_lines() -> impl Iterator<Item = String> {
    use std::io::BufRead;
    std::io::stdin().lock().lines().map(|l| l.expect("stdin"))
}
