//! C04: in-process side.
//! mode "spans":  in : <row index> TAB <hex line>
//!                out: NOMATCH | name:start:end;name:start:end;...   (named groups of row's regex on the
//!                     slice [range.start, min(len, range.end)) of the line; offsets relative to the LINE)
//! mode "parse":  in : <hex line> TAB <year or -> TAB <fallback offset seconds>
//!                out: NONE | <row index> TAB <instant ns> TAB <dt_beg> TAB <dt_end> TAB g0,g1,...,g8
//!                     first row (table order, each on its own slice) whose bytes_to_regex_to_datetime
//!                     returns Some; gi = hex of capture group year,month,day,hour,minute,second,fractional,tz,epoch
//!                     ("-" = group absent) taken with the SAME compiled regex text.
//! mode "row":    in : <row index> TAB <hex line> TAB <year or -> TAB <fallback offset seconds>
//!                out: as "parse" but only that row (NONE if it does not match)
use chrono::FixedOffset;
use regex::bytes::Regex;
use s4lib::data::datetime::{bytes_to_regex_to_datetime, DATETIME_PARSE_DATAS, DATETIME_PARSE_DATAS_LEN};
use s4verif::*;
use std::collections::HashMap;

const NAMES: [&str; 9] = ["year", "month", "day", "hour", "minute", "second", "fractional", "tz", "epoch"];

struct Rx {
    cache: HashMap<usize, Regex>,
}
impl Rx {
    fn get(&mut self, i: usize) -> &Regex {
        self.cache
            .entry(i)
            .or_insert_with(|| Regex::new(DATETIME_PARSE_DATAS[i].regex_pattern).expect("regex"))
    }
}

fn slice_of(i: usize, line: &[u8]) -> Option<(usize, &[u8])> {
    let d = &DATETIME_PARSE_DATAS[i];
    if line.len() <= d.range_regex.start {
        return None;
    }
    let end = std::cmp::min(line.len(), d.range_regex.end);
    if d.range_regex.start >= end {
        return None;
    }
    Some((d.range_regex.start, &line[d.range_regex.start..end]))
}

fn try_row(rx: &mut Rx, i: usize, line: &[u8], year: &Option<i32>, fo: &FixedOffset, fos: &String) -> Option<String> {
    let (start, sl) = slice_of(i, line)?;
    let r = std::panic::catch_unwind(|| bytes_to_regex_to_datetime(sl, &i, year, fo, fos));
    let (b, e, dt) = match r {
        Ok(Some(v)) => v,
        Ok(None) => return None,
        Err(_) => return Some(format!("{}\tPANIC", i)),
    };
    let ns: i128 = (dt.timestamp() as i128) * 1_000_000_000 + (dt.timestamp_subsec_nanos() as i128);
    let re = rx.get(i);
    let caps = re.captures(sl)?;
    let gs: Vec<String> = NAMES
        .iter()
        .map(|n| match caps.name(n) {
            Some(m) => {
                if m.as_bytes().is_empty() {
                    "e".to_string()
                } else {
                    hex(m.as_bytes())
                }
            }
            None => "-".to_string(),
        })
        .collect();
    Some(format!("{}\t{}\t{}\t{}\t{}", i, ns, b + start, e + start, gs.join(",")))
}

fn main() {
    let mode = std::env::args().nth(1).unwrap_or_else(|| "parse".to_string());
    let mut rx = Rx { cache: HashMap::new() };
    std::panic::set_hook(Box::new(|_| {}));
    for line in stdin_lines() {
        let f: Vec<&str> = line.split('\t').collect();
        match mode.as_str() {
            "spans" => {
                let i: usize = f[0].parse().unwrap();
                let data = unhex(f[1]);
                let out = match slice_of(i, &data) {
                    None => "NOMATCH".to_string(),
                    Some((start, sl)) => {
                        let re = rx.get(i);
                        match re.captures(sl) {
                            None => "NOMATCH".to_string(),
                            Some(c) => {
                                let mut v = Vec::new();
                                for n in re.capture_names().flatten() {
                                    if let Some(m) = c.name(n) {
                                        v.push(format!("{}:{}:{}", n, m.start() + start, m.end() + start));
                                    }
                                }
                                v.join(";")
                            }
                        }
                    }
                };
                println!("{}", out);
            }
            "parse" | "row" => {
                let off = if mode == "row" { 1 } else { 0 };
                let data = unhex(f[off]);
                let year: Option<i32> = if f[off + 1] == "-" { None } else { Some(f[off + 1].parse().unwrap()) };
                let secs: i32 = f[off + 2].parse().unwrap();
                let fo = FixedOffset::east_opt(secs).unwrap();
                let fos = fo.to_string();
                let mut out = "NONE".to_string();
                if mode == "row" {
                    let i: usize = f[0].parse().unwrap();
                    if let Some(s) = try_row(&mut rx, i, &data, &year, &fo, &fos) {
                        out = s;
                    }
                } else {
                    for i in 0..DATETIME_PARSE_DATAS_LEN {
                        if let Some(s) = try_row(&mut rx, i, &data, &year, &fo, &fos) {
                            out = s;
                            break;
                        }
                    }
                }
                println!("{}", out);
            }
            _ => panic!("unknown mode"),
        }
    }
}
