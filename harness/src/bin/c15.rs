//! C15: process_path on real trees.
//! in : <hex path> TAB <0|1 unparseable_are_text> [TAB <hex working directory>]
//!      (with a third field the process changes to that directory first: relative path strings)
//! out: one line, results separated by ' ':  <kind>:<hex path>:<type code>
//!      kind V FileValid  E FileErrEmpty  S FileErrNotSupported  A FileErrNotAFile
//!           X FileErrNotExist  P FileErrNoPermissions  T FileErrTooSmall  L FileErrLoadingLibrary
//!           R FileErr;   type code as in c16 (Coq `result_code`), 0 when there is none
use s4lib::common::{FileType, FileTypeArchive, FileTypeFixedStruct};
use s4lib::readers::filepreprocessor::{process_path, ProcessPathResult};
use s4verif::*;

fn fta(a: FileTypeArchive) -> u32 {
    match a {
        FileTypeArchive::Normal => 0,
        FileTypeArchive::Bz2 => 1,
        FileTypeArchive::Gz => 2,
        FileTypeArchive::Lz4 => 3,
        FileTypeArchive::Tar => 4,
        FileTypeArchive::Xz => 5,
    }
}

fn fixed(t: FileTypeFixedStruct) -> u32 {
    match t {
        FileTypeFixedStruct::Acct => 0,
        FileTypeFixedStruct::AcctV3 => 1,
        FileTypeFixedStruct::Lastlog => 2,
        FileTypeFixedStruct::Lastlogx => 3,
        FileTypeFixedStruct::Utmp => 4,
        FileTypeFixedStruct::Utmpx => 5,
    }
}

fn code(t: &FileType) -> u32 {
    match *t {
        FileType::Evtx { archival_type } => 100 + fta(archival_type),
        FileType::FixedStruct { archival_type, fixedstruct_type } => 200 + 10 * fixed(fixedstruct_type) + fta(archival_type),
        FileType::Journal { archival_type } => 300 + fta(archival_type),
        FileType::Text { archival_type, .. } => 400 + fta(archival_type),
        FileType::Unparsable => 500,
    }
}

fn main() {
    std::panic::set_hook(Box::new(|_| {}));
    for line in stdin_lines() {
        let mut it = line.split('\t');
        let path = String::from_utf8_lossy(&unhex(it.next().unwrap_or(""))).to_string();
        let uat = it.next().unwrap_or("1") == "1";
        if let Some(cwd) = it.next() {
            if !cwd.is_empty() {
                let d = String::from_utf8_lossy(&unhex(cwd)).to_string();
                if std::env::set_current_dir(&d).is_err() {
                    println!("CHDIR-FAILED");
                    continue;
                }
            }
        }
        let r = std::panic::catch_unwind(|| process_path(&path, uat));
        match r {
            Err(_) => println!("PANIC"),
            Ok(rs) => {
                let mut out: Vec<String> = Vec::new();
                for r in rs.iter() {
                    let (k, p, c) = match r {
                        ProcessPathResult::FileValid(p, t) => ("V", p, code(t)),
                        ProcessPathResult::FileErrEmpty(p, _) => ("E", p, 0),
                        ProcessPathResult::FileErrTooSmall(p, _, _) => ("T", p, 0),
                        ProcessPathResult::FileErrNoPermissions(p) => ("P", p, 0),
                        ProcessPathResult::FileErrNotSupported(p, _) => ("S", p, 0),
                        ProcessPathResult::FileErrNotAFile(p) => ("A", p, 0),
                        ProcessPathResult::FileErrNotExist(p) => ("X", p, 0),
                        ProcessPathResult::FileErrLoadingLibrary(p, _, _) => ("L", p, 0),
                        ProcessPathResult::FileErr(p, _) => ("R", p, 0),
                    };
                    out.push(format!("{}:{}:{}", k, hex(p.as_bytes()), c));
                }
                println!("{}", out.join(" "));
            }
        }
    }
}
