//! C04 translator source: print the COMPILED datetime tables of s4lib as data.
//! out: TZ <TAB> key <TAB> value                      (every MAP_TZZ_TO_TZz pair, sorted by key)
//!      ROW <TAB> index <TAB> year month day hour minute second fractional tz epoch (Debug names)
//!          <TAB> pattern <TAB> start <TAB> end <TAB> source line <TAB> cgn_first <TAB> cgn_last <TAB> hex(regex)
//!      LEN <TAB> DATETIME_PARSE_DATAS_LEN
use s4lib::data::datetime::{DATETIME_PARSE_DATAS, DATETIME_PARSE_DATAS_LEN, MAP_TZZ_TO_TZz};
use s4verif::*;

fn main() {
    let mut tz: Vec<(&str, &str)> = MAP_TZZ_TO_TZz.entries().map(|(k, v)| (*k, *v)).collect();
    tz.sort();
    for (k, v) in tz {
        println!("TZ\t{}\t{}", k, v);
    }
    println!("LEN\t{}", DATETIME_PARSE_DATAS_LEN);
    for (i, d) in DATETIME_PARSE_DATAS.iter().enumerate() {
        let f = &d.dtfs;
        println!(
            "ROW\t{}\t{:?}\t{:?}\t{:?}\t{:?}\t{:?}\t{:?}\t{:?}\t{:?}\t{:?}\t{}\t{}\t{}\t{}\t{}\t{}\t{}",
            i,
            f.year,
            f.month,
            f.day,
            f.hour,
            f.minute,
            f.second,
            f.fractional,
            f.tz,
            f.epoch,
            f.pattern,
            d.range_regex.start,
            d.range_regex.end,
            d._line_num,
            d.cgn_first,
            d.cgn_last,
            hex(d.regex_pattern.as_bytes())
        );
    }
}
