//! C10 oracle: an independent dump of an .evtx file made with the `evtx` crate directly.
//! Deliberately uses NOTHING of s4lib, so that it still builds — and the failing-input search of
//! checks/c10.py still has its oracle — when the code under test changes its types.
//!
//! `c10dump <path>`: one line per enumerated record, in enumeration (file) order, single threaded:
//!     `R <index> <record id> <creation time, nanoseconds since the epoch> <hex of the XML text>`
//!     or `E <index>` for a record the parser could not decode; then `END`.
use chrono::{DateTime, Utc};
use evtx::{EvtxParser, ParserSettings};

fn ns(t: &DateTime<Utc>) -> i128 {
    (t.timestamp() as i128) * 1_000_000_000 + (t.timestamp_subsec_nanos() as i128)
}

fn hex(b: &[u8]) -> String {
    let mut s = String::with_capacity(b.len() * 2);
    for x in b {
        s.push_str(&format!("{:02x}", x));
    }
    s
}

fn main() {
    let args: Vec<String> = std::env::args().collect();
    if args.len() < 2 {
        println!("USAGE");
        return;
    }
    let settings = ParserSettings::default().num_threads(1);
    let mut parser = match EvtxParser::from_path(&args[1]) {
        Ok(p) => p.with_configuration(settings),
        Err(e) => {
            println!("OPENERR {}", e);
            return;
        }
    };
    for (index, r) in parser.records().enumerate() {
        match r {
            Ok(rec) => println!("R {} {} {} {}", index, rec.event_record_id, ns(&rec.timestamp), hex(rec.data.as_bytes())),
            Err(_) => println!("E {}", index),
        }
    }
    println!("END");
}
