//! C04 (regex stage): the `regex` crate's observable behaviour on the project's own patterns.
//! mode "rows":  in : <rows> TAB <hex line>        rows = "*" (every row) or i,j,k
//!               out: one field per requested row, TAB separated:  <row>=<result>
//!                    result = "-"  (slice empty, or no match)
//!                           | s:e,s:e,_,...   spans of capture groups 0..captures_len()-1 of
//!                             Regex::captures on the row's slice [range.start, min(len, range.end))
//!                             ("_" = group did not participate), offsets relative to the LINE.
//!               The regex is `regex::bytes::Regex::new(DATETIME_PARSE_DATAS[i].regex_pattern)`, exactly as
//!               bytes_to_regex_to_datetime builds it.
//! mode "pat":   in : <hex pattern> TAB <hex text>
//!               out: ERR | - | s:e,s:e,...   (same, for an arbitrary pattern: engine conformance cases)
use regex::bytes::Regex;
use s4lib::data::datetime::{DATETIME_PARSE_DATAS, DATETIME_PARSE_DATAS_LEN};
use s4verif::*;
use std::collections::HashMap;

fn spans(re: &Regex, data: &[u8], shift: usize) -> String {
    match re.captures(data) {
        None => "-".to_string(),
        Some(c) => {
            let v: Vec<String> = (0..re.captures_len())
                .map(|i| match c.get(i) {
                    Some(m) => format!("{}:{}", m.start() + shift, m.end() + shift),
                    None => "_".to_string(),
                })
                .collect();
            v.join(",")
        }
    }
}

fn main() {
    let mode = std::env::args().nth(1).unwrap_or_else(|| "rows".to_string());
    let mut cache: HashMap<usize, Regex> = HashMap::new();
    let mut pcache: HashMap<String, Option<Regex>> = HashMap::new();
    for line in stdin_lines() {
        let f: Vec<&str> = line.split('\t').collect();
        match mode.as_str() {
            "rows" => {
                let data = unhex(f[1]);
                let rows: Vec<usize> = if f[0] == "*" {
                    (0..DATETIME_PARSE_DATAS_LEN).collect()
                } else {
                    f[0].split(',').map(|x| x.parse().unwrap()).collect()
                };
                let mut out: Vec<String> = Vec::new();
                for i in rows {
                    let d = &DATETIME_PARSE_DATAS[i];
                    let re = cache
                        .entry(i)
                        .or_insert_with(|| Regex::new(d.regex_pattern).expect("regex"));
                    let res = if data.len() <= d.range_regex.start {
                        "-".to_string()
                    } else {
                        let end = std::cmp::min(data.len(), d.range_regex.end);
                        if d.range_regex.start >= end {
                            "-".to_string()
                        } else {
                            spans(re, &data[d.range_regex.start..end], d.range_regex.start)
                        }
                    };
                    out.push(format!("{}={}", i, res));
                }
                println!("{}", out.join("\t"));
            }
            "pat" => {
                let pat = String::from_utf8(unhex(f[0])).expect("utf8 pattern");
                let data = unhex(f[1]);
                let re = pcache
                    .entry(pat.clone())
                    .or_insert_with(|| Regex::new(&pat).ok());
                match re {
                    None => println!("ERR"),
                    Some(re) => println!("{}", spans(re, &data, 0)),
                }
            }
            _ => panic!("unknown mode"),
        }
    }
}
