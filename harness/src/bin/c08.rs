//! C08: FixedStructReader (accounting records) in-process.
//!
//! `c08 layouts`
//!     one line per FixedStructType with the compiled constants and a black-box probe of
//!     `tv_pair_from_buffer`:
//!     L <TAB> name <TAB> size <TAB> offset_tv <TAB> size_tv <TAB> probe <TAB> fields
//!       probe  = comma list, one item per byte j of the time field: `s<k>` / `u<k>` when a
//!                buffer with only byte j = 1 decodes to seconds / microseconds = 256^k,
//!                `-` when it decodes to (0,0) (padding); then `;sneg=<0|1>;uneg=<0|1>`
//!                (an all-0xFF field decodes to a negative component)
//!       fields = comma list `label:kind:offset:size` of fields that `as_bytes` prints
//!                (kind c = C string, i/u = signed/unsigned little-endian integer);
//!                offsets from memoffset::span_of! on the crate's own struct definitions
//!     then `C ENTRY_SZ_MIN ENTRY_SZ_MAX TIMEVAL_SZ_MAX`
//!
//! `c08` (cases on stdin)
//!     in : path <TAB> kind(0..5 = Acct AcctV3 Lastlog Lastlogx Utmp Utmpx) <TAB> blocksz
//!          <TAB> after <TAB> before [<TAB> R]   (after/before: `-` or `<sec>.<usec>`;
//!          R: append `:<hex of FixedStruct::as_bytes>` to every entry)
//!          an entry for which process_entry_at returns Err((Some(next), _)) is written `E<fo>`
//!          (the driver loop continues at `next`), Err((None, _)) as `E<fo>!` (the loop ends)
//!     out: `OK <type> <fo>:<sec>:<usec>:<dsec>:<dusec> ...` entries in the order the driver loop of
//!          exec_fixedstructprocessor obtains them; sec/usec = FixedStruct::tv_pair(),
//!          dsec/dusec = this binary's own decoder applied to the file bytes at fo
//!          | `NEW <variant>` when FixedStructReader::new does not return FileOk
//!          | `PANIC`
//!
//! `c08 fields`
//!     F <TAB> type <TAB> module::struct <TAB> path:kind:offset:size,...   every field of the struct
//!       (kind: i/u = signed/unsigned integer, f = f32, c = array of c_char(i8), b = array of u8,
//!       a<k> = array of signed k-byte integers; offsets by addr_of! on a zeroed instance)
//!     O <TAB> type <TAB> discriminant     `FixedStructType as usize`
//!     K <TAB> name <TAB> value            pub constants used by as_bytes / score_fixedstruct
//!     T <TAB> module <TAB> v,v,...        module::UT_TYPES
//!     N <TAB> i <TAB> name                UT_TYPE_VAL_TO_STR[i]
//! `c08 render`  in: type <TAB> hex(entry)            out: `R <hex of as_bytes>` | `F <hex>` (InfoAsBytes::Fail) | `NONE` | `PANIC`
//! `c08 score`   in: type <TAB> bonus <TAB> hex(entry) out: `S <score>` | `NONE` | `PANIC`
//! `c08 kindof`  in: path                            out: kind index 0..5 the library's path_to_filetype derives from the
//!               file NAME (`-` when it is not a FixedStruct type)
//! `c08 detect`  in: path <TAB> kind <TAB> blocksz <TAB> T1:b1,T2:b2,... <TAB> repeat
//!               out: `D <T1>=<score|->,... | <type>:<high_score> x repeat` (FixedStructReader::new run `repeat` times;
//!               per-candidate scores from FixedStructReader::score_file with a one-element candidate set)
use chrono::{FixedOffset, TimeZone};
use std::collections::HashMap;
use memoffset::span_of;
use s4lib::common::{FileOffset, FileType, FileTypeArchive, FileTypeFixedStruct, ResultS3};
use s4lib::data::datetime::DateTimeLOpt;
use s4lib::data::fixedstruct::{
    buffer_to_fixedstructptr, freebsd_x8664, linux_arm64aarch64, linux_x86, netbsd_x8632, netbsd_x8664, openbsd_x86,
    FixedStruct, FixedStructType, InfoAsBytes, Score, ENTRY_SZ_MAX, ENTRY_SZ_MIN, TIMEVAL_SZ_MAX, UT_TYPE_VAL_TO_STR,
};
use s4lib::readers::blockreader::BlockReader;
use s4lib::readers::fixedstructreader::{FixedStructReader, ResultFixedStructReaderNew, ResultFixedStructReaderScoreFile};
use s4verif::*;

const ALL: [FixedStructType; 16] = [
    FixedStructType::Fs_Freebsd_x8664_Utmpx,
    FixedStructType::Fs_Linux_Arm64Aarch64_Lastlog,
    FixedStructType::Fs_Linux_Arm64Aarch64_Utmpx,
    FixedStructType::Fs_Linux_x86_Acct,
    FixedStructType::Fs_Linux_x86_Acct_v3,
    FixedStructType::Fs_Linux_x86_Lastlog,
    FixedStructType::Fs_Linux_x86_Utmpx,
    FixedStructType::Fs_Netbsd_x8632_Acct,
    FixedStructType::Fs_Netbsd_x8632_Lastlogx,
    FixedStructType::Fs_Netbsd_x8632_Utmpx,
    FixedStructType::Fs_Netbsd_x8664_Lastlog,
    FixedStructType::Fs_Netbsd_x8664_Lastlogx,
    FixedStructType::Fs_Netbsd_x8664_Utmp,
    FixedStructType::Fs_Netbsd_x8664_Utmpx,
    FixedStructType::Fs_Openbsd_x86_Lastlog,
    FixedStructType::Fs_Openbsd_x86_Utmp,
];

/// exhaustive match: a new variant makes this binary fail to compile, which the check
/// reports as a broken translator obligation
fn all_listed(t: FixedStructType) -> usize {
    match t {
        FixedStructType::Fs_Freebsd_x8664_Utmpx => 0,
        FixedStructType::Fs_Linux_Arm64Aarch64_Lastlog => 1,
        FixedStructType::Fs_Linux_Arm64Aarch64_Utmpx => 2,
        FixedStructType::Fs_Linux_x86_Acct => 3,
        FixedStructType::Fs_Linux_x86_Acct_v3 => 4,
        FixedStructType::Fs_Linux_x86_Lastlog => 5,
        FixedStructType::Fs_Linux_x86_Utmpx => 6,
        FixedStructType::Fs_Netbsd_x8632_Acct => 7,
        FixedStructType::Fs_Netbsd_x8632_Lastlogx => 8,
        FixedStructType::Fs_Netbsd_x8632_Utmpx => 9,
        FixedStructType::Fs_Netbsd_x8664_Lastlog => 10,
        FixedStructType::Fs_Netbsd_x8664_Lastlogx => 11,
        FixedStructType::Fs_Netbsd_x8664_Utmp => 12,
        FixedStructType::Fs_Netbsd_x8664_Utmpx => 13,
        FixedStructType::Fs_Openbsd_x86_Lastlog => 14,
        FixedStructType::Fs_Openbsd_x86_Utmp => 15,
    }
}

macro_rules! f {
    ($label:expr, $kind:expr, $st:path, $field:tt) => {{
        let r = span_of!($st, $field);
        format!("{}:{}:{}:{}", $label, $kind, r.start, r.end - r.start)
    }};
}

fn fields(t: FixedStructType) -> Vec<String> {
    match t {
        FixedStructType::Fs_Freebsd_x8664_Utmpx => vec![
            f!("ut_type", "i", freebsd_x8664::utmpx, ut_type),
            f!("ut_id", "c", freebsd_x8664::utmpx, ut_id),
            f!("ut_pid", "i", freebsd_x8664::utmpx, ut_pid),
            f!("ut_user", "c", freebsd_x8664::utmpx, ut_user),
            f!("ut_line", "c", freebsd_x8664::utmpx, ut_line),
            f!("ut_host", "c", freebsd_x8664::utmpx, ut_host),
            f!("ut_tv", "t", freebsd_x8664::utmpx, ut_tv),
        ],
        FixedStructType::Fs_Linux_Arm64Aarch64_Lastlog => vec![
            f!("ll_time", "t", linux_arm64aarch64::lastlog, ll_time),
            f!("ll_line", "c", linux_arm64aarch64::lastlog, ll_line),
            f!("ll_host", "c", linux_arm64aarch64::lastlog, ll_host),
        ],
        FixedStructType::Fs_Linux_Arm64Aarch64_Utmpx => vec![
            f!("ut_type", "i", linux_arm64aarch64::utmpx, ut_type),
            f!("ut_pid", "i", linux_arm64aarch64::utmpx, ut_pid),
            f!("ut_line", "c", linux_arm64aarch64::utmpx, ut_line),
            f!("ut_id", "c", linux_arm64aarch64::utmpx, ut_id),
            f!("ut_user", "c", linux_arm64aarch64::utmpx, ut_user),
            f!("ut_host", "c", linux_arm64aarch64::utmpx, ut_host),
            f!("ut_exit", "i", linux_arm64aarch64::utmpx, ut_exit),
            f!("ut_tv", "t", linux_arm64aarch64::utmpx, ut_tv),
        ],
        FixedStructType::Fs_Linux_x86_Acct => vec![
            f!("ac_flag", "u", linux_x86::acct, ac_flag),
            f!("ac_uid", "u", linux_x86::acct, ac_uid),
            f!("ac_gid", "u", linux_x86::acct, ac_gid),
            f!("ac_tty", "u", linux_x86::acct, ac_tty),
            f!("ac_btime", "t", linux_x86::acct, ac_btime),
            f!("ac_exitcode", "u", linux_x86::acct, ac_exitcode),
            f!("ac_comm", "c", linux_x86::acct, ac_comm),
        ],
        FixedStructType::Fs_Linux_x86_Acct_v3 => vec![
            f!("ac_flag", "u", linux_x86::acct_v3, ac_flag),
            f!("ac_version", "u", linux_x86::acct_v3, ac_version),
            f!("ac_tty", "u", linux_x86::acct_v3, ac_tty),
            f!("ac_exitcode", "u", linux_x86::acct_v3, ac_exitcode),
            f!("ac_uid", "u", linux_x86::acct_v3, ac_uid),
            f!("ac_gid", "u", linux_x86::acct_v3, ac_gid),
            f!("ac_pid", "u", linux_x86::acct_v3, ac_pid),
            f!("ac_ppid", "u", linux_x86::acct_v3, ac_ppid),
            f!("ac_btime", "t", linux_x86::acct_v3, ac_btime),
            f!("ac_comm", "c", linux_x86::acct_v3, ac_comm),
        ],
        FixedStructType::Fs_Linux_x86_Lastlog => vec![
            f!("ll_time", "t", linux_x86::lastlog, ll_time),
            f!("ll_line", "c", linux_x86::lastlog, ll_line),
            f!("ll_host", "c", linux_x86::lastlog, ll_host),
        ],
        FixedStructType::Fs_Linux_x86_Utmpx => vec![
            f!("ut_type", "i", linux_x86::utmpx, ut_type),
            f!("ut_pid", "i", linux_x86::utmpx, ut_pid),
            f!("ut_line", "c", linux_x86::utmpx, ut_line),
            f!("ut_id", "c", linux_x86::utmpx, ut_id),
            f!("ut_user", "c", linux_x86::utmpx, ut_user),
            f!("ut_host", "c", linux_x86::utmpx, ut_host),
            {
                let r = span_of!(linux_x86::utmpx, ut_exit);
                format!("e_termination:i:{}:2,e_exit:i:{}:2", r.start, r.start + 2)
            },
            f!("ut_session", "i", linux_x86::utmpx, ut_session),
            f!("ut_xtime", "t", linux_x86::utmpx, ut_tv),
        ],
        FixedStructType::Fs_Netbsd_x8632_Acct => vec![
            f!("ac_comm", "c", netbsd_x8632::acct, ac_comm),
            f!("ac_btime", "t", netbsd_x8632::acct, ac_btime),
            f!("ac_uid", "u", netbsd_x8632::acct, ac_uid),
            f!("ac_gid", "u", netbsd_x8632::acct, ac_gid),
            f!("ac_flag", "u", netbsd_x8632::acct, ac_flag),
        ],
        FixedStructType::Fs_Netbsd_x8632_Lastlogx => vec![
            f!("ll_tv", "t", netbsd_x8632::lastlogx, ll_tv),
            f!("ll_line", "c", netbsd_x8632::lastlogx, ll_line),
            f!("ll_host", "c", netbsd_x8632::lastlogx, ll_host),
        ],
        FixedStructType::Fs_Netbsd_x8632_Utmpx => vec![
            f!("ut_name", "c", netbsd_x8632::utmpx, ut_name),
            f!("ut_id", "c", netbsd_x8632::utmpx, ut_id),
            f!("ut_line", "c", netbsd_x8632::utmpx, ut_line),
            f!("ut_host", "c", netbsd_x8632::utmpx, ut_host),
            f!("ut_session", "u", netbsd_x8632::utmpx, ut_session),
            f!("ut_type", "u", netbsd_x8632::utmpx, ut_type),
            f!("ut_pid", "i", netbsd_x8632::utmpx, ut_pid),
            f!("ut_tv", "t", netbsd_x8632::utmpx, ut_tv),
        ],
        FixedStructType::Fs_Netbsd_x8664_Lastlog => vec![
            f!("ll_time", "t", netbsd_x8664::lastlog, ll_time),
            f!("ll_line", "c", netbsd_x8664::lastlog, ll_line),
            f!("ll_host", "c", netbsd_x8664::lastlog, ll_host),
        ],
        FixedStructType::Fs_Netbsd_x8664_Lastlogx => vec![
            f!("ll_tv", "t", netbsd_x8664::lastlogx, ll_tv),
            f!("ll_line", "c", netbsd_x8664::lastlogx, ll_line),
            f!("ll_host", "c", netbsd_x8664::lastlogx, ll_host),
        ],
        FixedStructType::Fs_Netbsd_x8664_Utmp => vec![
            f!("ut_line", "c", netbsd_x8664::utmp, ut_line),
            f!("ut_name", "c", netbsd_x8664::utmp, ut_name),
            f!("ut_host", "c", netbsd_x8664::utmp, ut_host),
            f!("ut_time", "t", netbsd_x8664::utmp, ut_time),
        ],
        FixedStructType::Fs_Netbsd_x8664_Utmpx => vec![
            f!("ut_user", "c", netbsd_x8664::utmpx, ut_user),
            f!("ut_id", "c", netbsd_x8664::utmpx, ut_id),
            f!("ut_line", "c", netbsd_x8664::utmpx, ut_line),
            f!("ut_host", "c", netbsd_x8664::utmpx, ut_host),
            f!("ut_session", "u", netbsd_x8664::utmpx, ut_session),
            f!("ut_type", "u", netbsd_x8664::utmpx, ut_type),
            f!("ut_pid", "i", netbsd_x8664::utmpx, ut_pid),
            f!("ut_tv", "t", netbsd_x8664::utmpx, ut_tv),
        ],
        FixedStructType::Fs_Openbsd_x86_Lastlog => vec![
            f!("ll_time", "t", openbsd_x86::lastlog, ll_time),
            f!("ll_line", "c", openbsd_x86::lastlog, ll_line),
            f!("ll_host", "c", openbsd_x86::lastlog, ll_host),
        ],
        FixedStructType::Fs_Openbsd_x86_Utmp => vec![
            f!("ut_line", "c", openbsd_x86::utmp, ut_line),
            f!("ut_name", "c", openbsd_x86::utmp, ut_name),
            f!("ut_host", "c", openbsd_x86::utmp, ut_host),
            f!("ut_time", "t", openbsd_x86::utmp, ut_time),
        ],
    }
}

fn log256(v: i64) -> Option<u32> {
    let mut k = 0u32;
    let mut x: i128 = 1;
    while k < 8 {
        if x == v as i128 {
            return Some(k);
        }
        x *= 256;
        k += 1;
    }
    None
}

fn probe(t: FixedStructType) -> String {
    let n = t.size_tv();
    let mut items: Vec<String> = Vec::new();
    for j in 0..n {
        let mut buf = vec![0u8; n];
        buf[j] = 1;
        let item = match t.tv_pair_from_buffer(&buf) {
            Some(p) => {
                if p.0 != 0 && p.1 == 0 {
                    match log256(p.0) { Some(k) => format!("s{}", k), None => "?".to_string() }
                } else if p.1 != 0 && p.0 == 0 {
                    match log256(p.1) { Some(k) => format!("u{}", k), None => "?".to_string() }
                } else if p.0 == 0 && p.1 == 0 {
                    "-".to_string()
                } else {
                    "?".to_string()
                }
            }
            None => "N".to_string(),
        };
        items.push(item);
    }
    let ff = vec![0xFFu8; n];
    let (sneg, uneg) = match t.tv_pair_from_buffer(&ff) {
        Some(p) => ((p.0 < 0) as u8, (p.1 < 0) as u8),
        None => (9, 9),
    };
    format!("{};sneg={};uneg={}", items.join(","), sneg, uneg)
}

/// the harness's own reading of the time field, written from the C struct definitions
/// (not from tv_pair_from_buffer): (seconds width, microseconds offset inside the field,
/// microseconds width; 0 = the struct has no sub-second part), seconds signed?
fn own_layout(name: &str) -> (usize, usize, usize, bool) {
    match name {
        "Fs_Freebsd_x8664_Utmpx" => (8, 8, 8, true),       // struct timeval { time_t(64); suseconds_t(long) }
        "Fs_Linux_Arm64Aarch64_Lastlog" => (8, 0, 0, true), // time_t ll_time (64-bit)
        "Fs_Linux_Arm64Aarch64_Utmpx" => (8, 8, 8, true),   // struct timeval { long; long }
        "Fs_Linux_x86_Acct" => (4, 0, 0, false),            // __u32 ac_btime
        "Fs_Linux_x86_Acct_v3" => (4, 0, 0, false),         // __u32 ac_btime
        "Fs_Linux_x86_Lastlog" => (4, 0, 0, true),          // int32_t ll_time
        "Fs_Linux_x86_Utmpx" => (4, 4, 4, true),            // struct { int32_t tv_sec; int32_t tv_usec; }
        "Fs_Netbsd_x8632_Acct" => (8, 0, 0, true),          // time_t ac_btime (64-bit since NetBSD 6)
        "Fs_Netbsd_x8632_Lastlogx" => (8, 8, 4, true),      // struct timeval { int64 time_t; int32 suseconds_t }
        "Fs_Netbsd_x8632_Utmpx" => (8, 8, 4, true),
        "Fs_Netbsd_x8664_Lastlog" => (8, 0, 0, true),
        "Fs_Netbsd_x8664_Lastlogx" => (8, 8, 4, true),
        "Fs_Netbsd_x8664_Utmp" => (8, 0, 0, true),
        "Fs_Netbsd_x8664_Utmpx" => (8, 8, 4, true),
        "Fs_Openbsd_x86_Lastlog" => (8, 0, 0, true),
        "Fs_Openbsd_x86_Utmp" => (8, 0, 0, true),
        _ => (0, 0, 0, true),
    }
}

fn le(bytes: &[u8], signed: bool) -> i64 {
    let mut v: u64 = 0;
    for (i, b) in bytes.iter().enumerate() {
        v |= (*b as u64) << (8 * i);
    }
    let bits = 8 * bytes.len() as u32;
    if signed && bits < 64 && bits > 0 && (v >> (bits - 1)) & 1 == 1 {
        (v as i64) - (1i64 << bits)
    } else {
        v as i64
    }
}

fn own_decode(t: FixedStructType, entry: &[u8]) -> (i64, i64) {
    let name = format!("{:?}", t);
    let (sl, uo, ul, ss) = own_layout(&name);
    let f = &entry[t.offset_tv()..t.offset_tv() + t.size_tv()];
    let sec = le(&f[0..sl], ss);
    let usec = if ul == 0 { 0 } else { le(&f[uo..uo + ul], true) };
    (sec, usec)
}

fn kind(k: &str) -> FileTypeFixedStruct {
    match k {
        "0" => FileTypeFixedStruct::Acct,
        "1" => FileTypeFixedStruct::AcctV3,
        "2" => FileTypeFixedStruct::Lastlog,
        "3" => FileTypeFixedStruct::Lastlogx,
        "4" => FileTypeFixedStruct::Utmp,
        _ => FileTypeFixedStruct::Utmpx,
    }
}

fn bound(s: &str) -> DateTimeLOpt {
    if s == "-" || s.is_empty() {
        return None;
    }
    let mut it = s.split('.');
    let sec: i64 = it.next().unwrap().parse().unwrap();
    let usec: u32 = it.next().unwrap_or("0").parse().unwrap();
    Some(FixedOffset::east_opt(0).unwrap().timestamp_opt(sec, usec * 1000).unwrap())
}

fn run_case(line: &str) -> String {
    let v: Vec<&str> = line.split('\t').collect();
    let path = v[0].to_string();
    let ft = FileType::FixedStruct { archival_type: FileTypeArchive::Normal, fixedstruct_type: kind(v[1]) };
    let bs: u64 = v[2].parse().unwrap();
    let a = bound(v[3]);
    let b = bound(v[4]);
    let render = v.len() > 5 && v[5] == "R";
    let data = std::fs::read(&path).unwrap_or_default();
    let tz = FixedOffset::east_opt(0).unwrap();
    let mut r = match FixedStructReader::new(path.clone(), ft, bs, tz, a, b) {
        ResultFixedStructReaderNew::FileOk(r) => r,
        ResultFixedStructReaderNew::FileErrEmpty => return "NEW FileErrEmpty".into(),
        ResultFixedStructReaderNew::FileErrTooSmall(_) => return "NEW FileErrTooSmall".into(),
        ResultFixedStructReaderNew::FileErrNoValidFixedStruct => return "NEW FileErrNoValidFixedStruct".into(),
        ResultFixedStructReaderNew::FileErrNoFixedStructWithinDtFilters => {
            return "NEW FileErrNoFixedStructWithinDtFilters".into()
        }
        ResultFixedStructReaderNew::FileErrIo(e) => return format!("NEW FileErrIo {}", e),
    };
    let t = r.fixedstruct_type();
    let sz = t.size();
    let mut out = format!("OK {:?}", t);
    // the loop of exec_fixedstructprocessor
    let mut fo: FileOffset = match r.fileoffset_first() {
        Some(fo) => fo,
        None => return out + " FIRSTNONE",
    };
    let mut buffer = [0u8; ENTRY_SZ_MAX];
    let mut guard = 0usize;
    loop {
        guard += 1;
        if guard > data.len() / sz + 10 {
            out += " LOOP";
            break;
        }
        let fo_next = match r.process_entry_at(fo, &mut buffer) {
            ResultS3::Found((fo_, fs)) => {
                let at = fs.fileoffset_begin() as usize;
                let p = fs.tv_pair();
                let (ds, du) = if at + sz <= data.len() { own_decode(t, &data[at..at + sz]) } else { (-1, -1) };
                out += &format!(" {}:{}:{}:{}:{}", at, p.0, p.1, ds, du);
                if render {
                    let mut rb = vec![0u8; 4096];
                    let n = match fs.as_bytes(&mut rb) {
                        InfoAsBytes::Ok(n, _, _) => n,
                        InfoAsBytes::Fail(n) => n,
                    };
                    out += &format!(":{}", hex(&rb[..n]));
                }
                fo_
            }
            ResultS3::Done => break,
            ResultS3::Err((fo_opt, _e)) => {
                match fo_opt {
                    Some(fo_) => {
                        out += &format!(" E{}", fo);
                        fo_
                    }
                    None => {
                        out += &format!(" E{}!", fo);
                        break;
                    }
                }
            }
        };
        fo = fo_next;
    }
    out
}

// ------------------------------------------------------------------ every field of every struct
trait Kind {
    fn kind() -> String;
}
macro_rules! kind_scalar {
    ($($t:ty => $k:expr),*) => { $( impl Kind for $t { fn kind() -> String { $k.to_string() } } )* };
}
kind_scalar!(i8 => "i", i16 => "i", i32 => "i", i64 => "i", u8 => "u", u16 => "u", u32 => "u", u64 => "u", f32 => "f");
impl<const N: usize> Kind for [i8; N] {
    fn kind() -> String { "c".to_string() }
}
impl<const N: usize> Kind for [u8; N] {
    fn kind() -> String { "b".to_string() }
}
impl<const N: usize> Kind for [i32; N] {
    fn kind() -> String { "a4".to_string() }
}
fn info<T: Kind>(_p: *const T) -> (usize, String) {
    (std::mem::size_of::<T>(), T::kind())
}

macro_rules! flds {
    ($st:ty; $($($path:ident).+),* $(,)?) => {{
        let s: $st = unsafe { std::mem::zeroed() };
        let base = std::ptr::addr_of!(s) as usize;
        let mut v: Vec<String> = Vec::new();
        $( {
            let p = std::ptr::addr_of!(s.$($path).+);
            let (sz, k) = info(p);
            v.push(format!("{}:{}:{}:{}", stringify!($($path).+).replace(' ', ""), k, p as usize - base, sz));
        } )*
        (stringify!($st).replace(' ', ""), v)
    }};
}

fn all_fields(t: FixedStructType) -> (String, Vec<String>) {
    match t {
        FixedStructType::Fs_Freebsd_x8664_Utmpx => flds!(freebsd_x8664::utmpx; ut_type, __gap1, ut_tv.tv_sec, ut_tv.tv_usec,
            ut_id, ut_pid, ut_user, ut_line, ut_host, __ut_spare),
        FixedStructType::Fs_Linux_Arm64Aarch64_Lastlog => flds!(linux_arm64aarch64::lastlog; ll_time, ll_line, ll_host),
        FixedStructType::Fs_Linux_Arm64Aarch64_Utmpx => flds!(linux_arm64aarch64::utmpx; ut_type, ut_pid, ut_line, ut_id,
            ut_user, ut_host, ut_exit, ut_session, ut_tv.tv_sec, ut_tv.tv_usec, ut_addr_v6, __glibc_reserved),
        FixedStructType::Fs_Linux_x86_Acct => flds!(linux_x86::acct; ac_flag, ac_uid, ac_gid, ac_tty, ac_btime, ac_utime,
            ac_stime, ac_etime, ac_mem, ac_io, ac_rw, ac_minflt, ac_majflt, ac_swaps, ac_exitcode, ac_comm, ac_pad),
        FixedStructType::Fs_Linux_x86_Acct_v3 => flds!(linux_x86::acct_v3; ac_flag, ac_version, ac_tty, ac_exitcode, ac_uid,
            ac_gid, ac_pid, ac_ppid, ac_btime, ac_etime, ac_utime, ac_stime, ac_mem, ac_io, ac_rw, ac_minflt, ac_majflt,
            ac_swaps, ac_comm),
        FixedStructType::Fs_Linux_x86_Lastlog => flds!(linux_x86::lastlog; ll_time, ll_line, ll_host),
        FixedStructType::Fs_Linux_x86_Utmpx => flds!(linux_x86::utmpx; ut_type, ut_pid, ut_line, ut_id, ut_user, ut_host,
            ut_exit.e_termination, ut_exit.e_exit, ut_session, ut_tv.tv_sec, ut_tv.tv_usec, ut_addr_v6, __glibc_reserved),
        FixedStructType::Fs_Netbsd_x8632_Acct => flds!(netbsd_x8632::acct; ac_comm, ac_utime, ac_stime, ac_etime, __gap1,
            ac_btime, ac_uid, ac_gid, ac_mem, ac_io, ac_tty, ac_flag, __gap3),
        FixedStructType::Fs_Netbsd_x8632_Lastlogx => flds!(netbsd_x8632::lastlogx; ll_tv.tv_sec, ll_tv.tv_usec, ll_line,
            ll_host, ll_ss),
        FixedStructType::Fs_Netbsd_x8632_Utmpx => flds!(netbsd_x8632::utmpx; ut_name, ut_id, ut_line, ut_host, ut_session,
            ut_type, ut_pid, ut_exit.e_termination, ut_exit.e_exit, ut_ss, ut_tv.tv_sec, ut_tv.tv_usec, ut_pad),
        FixedStructType::Fs_Netbsd_x8664_Lastlog => flds!(netbsd_x8664::lastlog; ll_time, ll_line, ll_host),
        FixedStructType::Fs_Netbsd_x8664_Lastlogx => flds!(netbsd_x8664::lastlogx; ll_tv.tv_sec, ll_tv.tv_usec, ll_line,
            ll_host, ll_ss),
        FixedStructType::Fs_Netbsd_x8664_Utmp => flds!(netbsd_x8664::utmp; ut_line, ut_name, ut_host, ut_time),
        FixedStructType::Fs_Netbsd_x8664_Utmpx => flds!(netbsd_x8664::utmpx; ut_user, ut_id, ut_line, ut_host, ut_session,
            ut_type, ut_pid, ut_exit.e_termination, ut_exit.e_exit, __gap1, ut_tv.tv_sec, ut_tv.tv_usec, ut_pad),
        FixedStructType::Fs_Openbsd_x86_Lastlog => flds!(openbsd_x86::lastlog; ll_time, ll_line, ll_host),
        FixedStructType::Fs_Openbsd_x86_Utmp => flds!(openbsd_x86::utmp; ut_line, ut_name, ut_host, ut_time),
    }
}

fn print_fields() {
    for t in ALL.iter() {
        let (st, v) = all_fields(*t);
        println!("F\t{:?}\t{}\t{}", t, st, v.join(","));
        // the enum discriminant: score_file tries the candidates in ascending `as usize` order
        println!("O\t{:?}\t{}", t, *t as usize);
    }
    macro_rules! k {
        ($($m:ident :: $c:ident),*) => { $( println!("K\t{}::{}\t{}", stringify!($m), stringify!($c), ($m::$c as i64) & 0xFF); )* };
    }
    k!(linux_x86::AFORK, linux_x86::ASU, linux_x86::ACOMPAT, linux_x86::ACORE, linux_x86::AXSIG, linux_x86::AC_FLAGS_MASK,
       netbsd_x8632::AFORK, netbsd_x8632::ASU, netbsd_x8632::ACOMPAT, netbsd_x8632::ACORE, netbsd_x8632::AXSIG,
       netbsd_x8632::AC_FLAGS_MASK);
    macro_rules! szfo {
        ($($m:ident :: $c:ident),*) => { $( println!("K\t{}::{}\t{}", stringify!($m), stringify!($c), $m::$c); )* };
    }
    szfo!(freebsd_x8664::UTMPX_SZ_FO, linux_arm64aarch64::LASTLOG_SZ_FO, linux_arm64aarch64::UTMPX_SZ_FO,
          linux_x86::ACCT_SZ_FO, linux_x86::ACCT_V3_SZ_FO, linux_x86::LASTLOG_SZ_FO, linux_x86::UTMPX_SZ_FO,
          netbsd_x8632::ACCT_SZ_FO, netbsd_x8632::LASTLOGX_SZ_FO, netbsd_x8632::UTMPX_SZ_FO,
          netbsd_x8664::LASTLOG_SZ_FO, netbsd_x8664::LASTLOGX_SZ_FO, netbsd_x8664::UTMP_SZ_FO, netbsd_x8664::UTMPX_SZ_FO,
          openbsd_x86::LASTLOG_SZ_FO, openbsd_x86::UTMP_SZ_FO);
    macro_rules! ut {
        ($($m:ident),*) => { $( println!("T\t{}\t{}", stringify!($m),
            $m::UT_TYPES.iter().map(|x| format!("{}", x)).collect::<Vec<_>>().join(",")); )* };
    }
    ut!(freebsd_x8664, linux_arm64aarch64, linux_x86, netbsd_x8632, netbsd_x8664);
    for (i, n) in UT_TYPE_VAL_TO_STR.iter().enumerate() {
        println!("N\t{}\t{}", i, n);
    }
}

fn type_by_name(name: &str) -> Option<FixedStructType> {
    ALL.iter().copied().find(|t| format!("{:?}", t) == name)
}

fn render_case(line: &str) -> String {
    let v: Vec<&str> = line.split('\t').collect();
    let t = match type_by_name(v[0]) { Some(t) => t, None => return "BADTYPE".into() };
    let data = unhex(v[1]);
    let tz = FixedOffset::east_opt(0).unwrap();
    let fs = match FixedStruct::new(0, &tz, &data, t) { Ok(fs) => fs, Err(_) => return "NONE".into() };
    let cap: usize = if v.len() > 2 { v[2].parse().unwrap() } else { ENTRY_SZ_MAX * 2 };
    let mut rb = vec![0u8; cap];
    match fs.as_bytes(&mut rb) {
        InfoAsBytes::Ok(n, b, e) => format!("R {} {} {}", hex(&rb[..n]), b, e),
        InfoAsBytes::Fail(n) => format!("F {}", hex(&rb[..n])),
    }
}

fn score_case(line: &str) -> String {
    let v: Vec<&str> = line.split('\t').collect();
    let t = match type_by_name(v[0]) { Some(t) => t, None => return "BADTYPE".into() };
    let bonus: Score = v[1].parse().unwrap();
    let data = unhex(v[2]);
    match buffer_to_fixedstructptr(&data, t) {
        Some(p) => format!("S {}", FixedStruct::score_fixedstruct(&p, bonus)),
        None => "NONE".into(),
    }
}

fn kindof_case(line: &str) -> String {
    use s4lib::readers::filepreprocessor::{path_to_filetype, PathToFiletypeResult};
    match path_to_filetype(std::path::Path::new(line), true) {
        PathToFiletypeResult::Filetype(FileType::FixedStruct { archival_type: _, fixedstruct_type: t }) => match t {
            FileTypeFixedStruct::Acct => "0".into(),
            FileTypeFixedStruct::AcctV3 => "1".into(),
            FileTypeFixedStruct::Lastlog => "2".into(),
            FileTypeFixedStruct::Lastlogx => "3".into(),
            FileTypeFixedStruct::Utmp => "4".into(),
            FileTypeFixedStruct::Utmpx => "5".into(),
        },
        _ => "-".into(),
    }
}

fn detect_case(line: &str) -> String {
    let v: Vec<&str> = line.split('\t').collect();
    let path = v[0].to_string();
    let ft = FileType::FixedStruct { archival_type: FileTypeArchive::Normal, fixedstruct_type: kind(v[1]) };
    let bs: u64 = v[2].parse().unwrap();
    let repeat: usize = if v.len() > 4 { v[4].parse().unwrap() } else { 1 };
    let mut out = String::from("D");
    let mut first = true;
    for c in v[3].split(',').filter(|c| !c.is_empty()) {
        let mut it = c.split(':');
        let t = match type_by_name(it.next().unwrap()) { Some(t) => t, None => return "BADTYPE".into() };
        let bonus: Score = it.next().unwrap().parse().unwrap();
        let mut br = match BlockReader::new(path.clone(), ft, bs) { Ok(b) => b, Err(e) => return format!("BRERR {}", e) };
        let mut set: HashMap<FixedStructType, Score> = HashMap::new();
        set.insert(t, bonus);
        let sc = match FixedStructReader::score_file(&mut br, false, set) {
            ResultFixedStructReaderScoreFile::FileOk(t2, s, l) => { assert_eq!(t2, t); format!("{}/{}", s, l.len()) }
            ResultFixedStructReaderScoreFile::FileErrNoHighScore => "-".to_string(),
            ResultFixedStructReaderScoreFile::FileErrEmpty => "empty".to_string(),
            ResultFixedStructReaderScoreFile::FileErrNoValidFixedStruct => "novalid".to_string(),
            ResultFixedStructReaderScoreFile::FileErrIo(e) => format!("io:{}", e),
        };
        out += &format!("{}{:?}={}", if first { " " } else { "," }, t, sc);
        first = false;
    }
    out += " |";
    let tz = FixedOffset::east_opt(0).unwrap();
    for _ in 0..repeat {
        match FixedStructReader::new(path.clone(), ft, bs, tz, None, None) {
            ResultFixedStructReaderNew::FileOk(r) => {
                out += &format!(" {:?}:{}", r.fixedstruct_type(), r.summary().fixedstructreader_high_score)
            }
            ResultFixedStructReaderNew::FileErrEmpty => out += " FileErrEmpty",
            ResultFixedStructReaderNew::FileErrTooSmall(_) => out += " FileErrTooSmall",
            ResultFixedStructReaderNew::FileErrNoValidFixedStruct => out += " FileErrNoValidFixedStruct",
            ResultFixedStructReaderNew::FileErrNoFixedStructWithinDtFilters => out += " FileErrNoFixedStructWithinDtFilters",
            ResultFixedStructReaderNew::FileErrIo(_) => out += " FileErrIo",
        }
    }
    out
}

fn main() {
    let args: Vec<String> = std::env::args().collect();
    if args.len() > 1 && args[1] == "layouts" {
        for (i, t) in ALL.iter().enumerate() {
            assert_eq!(all_listed(*t), i);
            println!(
                "L\t{:?}\t{}\t{}\t{}\t{}\t{}",
                t,
                t.size(),
                t.offset_tv(),
                t.size_tv(),
                probe(*t),
                fields(*t).join(",")
            );
        }
        println!("C\t{}\t{}\t{}", ENTRY_SZ_MIN, ENTRY_SZ_MAX, TIMEVAL_SZ_MAX);
        return;
    }
    if args.len() > 1 && args[1] == "fields" {
        print_fields();
        return;
    }
    let mode: fn(&str) -> String = match args.get(1).map(|s| s.as_str()) {
        Some("render") => render_case,
        Some("score") => score_case,
        Some("detect") => detect_case,
        Some("kindof") => kindof_case,
        _ => run_case,
    };
    std::panic::set_hook(Box::new(|_| {}));
    for line in stdin_lines() {
        let l = line.clone();
        match std::panic::catch_unwind(move || mode(&l)) {
            Ok(s) => println!("{}", s),
            Err(_) => println!("PANIC"),
        }
    }
}
