//! C13 (and the parser side of C14): in-process side of the strftime print / parse tie.
//! mode "fmt":   in : <hex format> TAB <instant ns> TAB <offset seconds>
//!               out: <hex text> | PANIC | RANGE
//!                    chrono `DateTime<Utc>.with_timezone(&FixedOffset).format(fmt)` — the call the
//!                    printers make for the prepended datetime field
//! mode "parse": in : <hex pattern> TAB <hex text> TAB <has_tz 0|1> TAB <fallback offset seconds>
//!               out: NONE | <instant ns> | PANIC
//!                    `s4lib::data::datetime::datetime_parse_from_str(text, pattern, has_tz, &tz)`
//! mode "rt":    in : <hex format> TAB <instant ns> TAB <offset seconds> TAB <has_tz 0|1> TAB <parse zone seconds>
//!               out: <hex text> TAB (NONE | <instant ns>)   print, then parse the printed text with the same format
use chrono::{DateTime, FixedOffset, TimeZone, Utc};
use s4lib::data::datetime::datetime_parse_from_str;
use s4verif::*;
use std::fmt::Write;

fn instant(ns: i128) -> Option<DateTime<Utc>> {
    let secs = ns.div_euclid(1_000_000_000) as i64;
    let nano = ns.rem_euclid(1_000_000_000) as u32;
    Utc.timestamp_opt(secs, nano).single()
}

fn do_fmt(fmt: &str, ns: i128, off: i32) -> Result<String, &'static str> {
    let fo = FixedOffset::east_opt(off).ok_or("RANGE")?;
    let dt = instant(ns).ok_or("RANGE")?.with_timezone(&fo);
    let fmt = fmt.to_string();
    let r = std::panic::catch_unwind(move || {
        let mut s = String::new();
        match write!(s, "{}", dt.format(&fmt)) {
            Ok(()) => Some(s),
            Err(_) => None,
        }
    });
    match r {
        Ok(Some(s)) => Ok(s),
        Ok(None) => Err("PANIC"),
        Err(_) => Err("PANIC"),
    }
}

fn do_parse(pat: &str, text: &str, has_tz: bool, tz: i32) -> String {
    let fo = match FixedOffset::east_opt(tz) {
        Some(f) => f,
        None => return "RANGE".to_string(),
    };
    let (p, t) = (pat.to_string(), text.to_string());
    let r = std::panic::catch_unwind(move || datetime_parse_from_str(t.as_str(), p.as_str(), has_tz, &fo));
    match r {
        Ok(Some(dt)) => {
            let ns: i128 = (dt.timestamp() as i128) * 1_000_000_000 + (dt.timestamp_subsec_nanos() as i128);
            format!("{}", ns)
        }
        Ok(None) => "NONE".to_string(),
        Err(_) => "PANIC".to_string(),
    }
}

fn main() {
    let mode = std::env::args().nth(1).unwrap_or_else(|| "fmt".to_string());
    std::panic::set_hook(Box::new(|_| {}));
    for line in stdin_lines() {
        let f: Vec<&str> = line.split('\t').collect();
        match mode.as_str() {
            "fmt" => {
                let fmt = String::from_utf8_lossy(&unhex(f[0])).to_string();
                let ns: i128 = f[1].parse().unwrap();
                let off: i32 = f[2].parse().unwrap();
                match do_fmt(&fmt, ns, off) {
                    Ok(s) => println!("{}", hex(s.as_bytes())),
                    Err(e) => println!("{}", e),
                }
            }
            "parse" => {
                let pat = String::from_utf8_lossy(&unhex(f[0])).to_string();
                let text = String::from_utf8_lossy(&unhex(f[1])).to_string();
                let has_tz = f[2] == "1";
                let tz: i32 = f[3].parse().unwrap();
                println!("{}", do_parse(&pat, &text, has_tz, tz));
            }
            "rt" => {
                let fmt = String::from_utf8_lossy(&unhex(f[0])).to_string();
                let ns: i128 = f[1].parse().unwrap();
                let off: i32 = f[2].parse().unwrap();
                let has_tz = f[3] == "1";
                let tz: i32 = f[4].parse().unwrap();
                match do_fmt(&fmt, ns, off) {
                    Ok(s) => println!("{}\t{}", hex(s.as_bytes()), do_parse(&fmt, &s, has_tz, tz)),
                    Err(e) => println!("{}\t-", e),
                }
            }
            _ => panic!("unknown mode"),
        }
    }
}
