//! C16: path_to_filetype on arbitrary single-component names.
//! in : <hex name> TAB <0|1 unparseable_are_text>
//! out: <code>   (numbering = Coq `result_code`)
use s4verif::*;
use s4lib::common::{FileType, FileTypeArchive, FileTypeFixedStruct};
use s4lib::readers::filepreprocessor::{path_to_filetype, PathToFiletypeResult};
use std::ffi::OsStr;
use std::os::unix::ffi::OsStrExt;
use std::path::Path;

fn fta(a: FileTypeArchive) -> u32 {
    match a {
        FileTypeArchive::Normal => 0,
        FileTypeArchive::Bz2 => 1,
        FileTypeArchive::Gz => 2,
        FileTypeArchive::Lz4 => 3,
        FileTypeArchive::Tar => 4,
        FileTypeArchive::Xz => 5,
    }
}

fn fixed(t: FileTypeFixedStruct) -> u32 {
    match t {
        FileTypeFixedStruct::Acct => 0,
        FileTypeFixedStruct::AcctV3 => 1,
        FileTypeFixedStruct::Lastlog => 2,
        FileTypeFixedStruct::Lastlogx => 3,
        FileTypeFixedStruct::Utmp => 4,
        FileTypeFixedStruct::Utmpx => 5,
    }
}

pub fn code(r: PathToFiletypeResult) -> u32 {
    match r {
        PathToFiletypeResult::Filetype(FileType::Evtx { archival_type }) => 100 + fta(archival_type),
        PathToFiletypeResult::Filetype(FileType::FixedStruct { archival_type, fixedstruct_type }) => {
            200 + 10 * fixed(fixedstruct_type) + fta(archival_type)
        }
        PathToFiletypeResult::Filetype(FileType::Journal { archival_type }) => 300 + fta(archival_type),
        PathToFiletypeResult::Filetype(FileType::Text { archival_type, .. }) => 400 + fta(archival_type),
        PathToFiletypeResult::Filetype(FileType::Unparsable) => 500,
        PathToFiletypeResult::Archive(_, a) => 600 + fta(a),
    }
}

fn main() {
    for line in stdin_lines() {
        let mut it = line.split('\t');
        let name = unhex(it.next().unwrap_or(""));
        let uat = it.next().unwrap_or("0") == "1";
        let p = Path::new(OsStr::from_bytes(&name));
        let r = std::panic::catch_unwind(|| path_to_filetype(p, uat));
        match r {
            Ok(r) => println!("{}", code(r)),
            Err(_) => println!("PANIC"),
        }
    }
}
