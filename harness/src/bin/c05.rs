//! C05: BlockReader in-process on stored (compressed / archived) files.
//! in (TAB separated):
//!   blocks  <hex path> <fta 0 normal 1 bz2 2 gz 3 lz4 4 tar 5 xz> <blocksz> <drop 1|0> <i,i,i,...>
//!       out: OK <filesz> <count_blocks_processed after new> <i>:F:<hex>|<i>:D:|<i>:E: ...
//!            NEWERR <message>            (BlockReader::new failed)
//!            PANIC
//!   lz4enc  <hex inpath> <hex outpath> <block size 4..7> <linked 0|1> <content checksum 0|1>
//!       out: OK <compressed size>        (frame written with lz4_flex::frame::FrameEncoder)
//! WP-J (container glue):
//!   open    <hex path> <fta> <blocksz> <i,i,...>
//!       out: OK <filesz()> <blockoffset_last()> <count_blocks(filesz, blocksz)> <mtime()> <fs mtime> <count_blocks_processed> <results as above>
//!            mtime = <secs>.<nanos> since the epoch, "-<secs>.<nanos>" before it, or MPANIC
//!            NEWERR <message> | PANIC
//!   openh   <hex path> <fta> <blocksz> <i,i,...>   like blocks (drop on), blocks as <i>:F:<len>:<digest> (Corr/C05c.digest)
//!       out: OK <filesz()> <i>:F:<len>:<digest>|<i>:D:0:0|<i>:E:0:0 ...
//!   tarls   <hex path> [0]  the tar crate's own entry list (entries_with_seek; with 0: entries()), the oracle of the model:
//!       out: OK <k>:<type byte>:<entry.size()>:<header().size()|E>:<header().mtime()|E>:<hex path lossy|E>:<raw_file_position>:<hex data>:<hex path_bytes()> ... | <k>:ERR
//!   pptar   <hex path>      process_path_tar(path, true, Normal)
//!       out: OK L:<hex fullpath> | E:<hex fullpath> | X ...
//!   ntf     <hex path> <fta> <j|e>     decompress_to_ntf(path, Journal|Evtx{fta})
//!       out: OK <file_sz> <mtime_opt: secs.nanos | NONE | MPANIC> <hex content> | OKNONE | ERR <message>
use s4lib::common::{FileType, FileTypeArchive, FileTypeTextEncoding, ResultS3};
use s4lib::readers::blockreader::{BlockOffset, BlockReader, BlockSz};
use s4verif::*;
use std::io::Write;

fn fta(c: &str) -> FileTypeArchive {
    match c {
        "1" => FileTypeArchive::Bz2,
        "2" => FileTypeArchive::Gz,
        "3" => FileTypeArchive::Lz4,
        "4" => FileTypeArchive::Tar,
        "5" => FileTypeArchive::Xz,
        _ => FileTypeArchive::Normal,
    }
}

fn blocks(f: &[&str]) -> String {
    let path = String::from_utf8_lossy(&unhex(f[1])).to_string();
    let ft = FileType::Text { archival_type: fta(f[2]), encoding_type: FileTypeTextEncoding::Utf8Ascii };
    let bs: BlockSz = f[3].parse().unwrap();
    let drop = f[4] == "1";
    let idx: Vec<BlockOffset> = f[5].split(',').filter(|s| !s.is_empty()).map(|s| s.parse().unwrap()).collect();
    let mut br = match BlockReader::new(path, ft, bs) {
        Ok(b) => b,
        Err(e) => return format!("NEWERR {}", e.to_string().replace('\n', " ").replace('\t', " ")),
    };
    if !drop {
        br.disable_drop_data();
    }
    let mut out = format!("OK {} {}", br.filesz(), br.count_blocks_processed());
    for i in idx {
        match br.read_block(i) {
            ResultS3::Found(bp) => out.push_str(&format!(" {}:F:{}", i, hex(&bp))),
            ResultS3::Done => out.push_str(&format!(" {}:D:", i)),
            ResultS3::Err(_e) => out.push_str(&format!(" {}:E:", i)),
        }
    }
    out
}

fn st_fmt(t: std::time::SystemTime) -> String {
    match t.duration_since(std::time::UNIX_EPOCH) {
        Ok(d) => format!("{}.{}", d.as_secs(), d.subsec_nanos()),
        Err(e) => format!("-{}.{}", e.duration().as_secs(), e.duration().subsec_nanos()),
    }
}

fn open(f: &[&str]) -> String {
    let path = String::from_utf8_lossy(&unhex(f[1])).to_string();
    let ft = FileType::Text { archival_type: fta(f[2]), encoding_type: FileTypeTextEncoding::Utf8Ascii };
    let bs: BlockSz = f[3].parse().unwrap();
    let idx: Vec<BlockOffset> = f[4].split(',').filter(|s| !s.is_empty()).map(|s| s.parse().unwrap()).collect();
    let mut br = match BlockReader::new(path, ft, bs) {
        Ok(b) => b,
        Err(e) => return format!("NEWERR {}", e.to_string().replace('\n', " ").replace('\t', " ")),
    };
    let mt = match std::panic::catch_unwind(std::panic::AssertUnwindSafe(|| br.mtime())) {
        Ok(t) => st_fmt(t),
        Err(_) => String::from("MPANIC"),
    };
    let fsm = match br.metadata().modified() {
        Ok(t) => st_fmt(t),
        Err(_) => String::from("E"),
    };
    let mut out = format!(
        "OK {} {} {} {} {} {}",
        br.filesz(),
        br.blockoffset_last(),
        BlockReader::count_blocks(br.filesz(), br.blocksz()),
        mt,
        fsm,
        br.count_blocks_processed()
    );
    for i in idx {
        match br.read_block(i) {
            ResultS3::Found(bp) => out.push_str(&format!(" {}:F:{}", i, hex(&bp))),
            ResultS3::Done => out.push_str(&format!(" {}:D:", i)),
            ResultS3::Err(_e) => out.push_str(&format!(" {}:E:", i)),
        }
    }
    out
}

fn openh(f: &[&str]) -> String {
    let path = String::from_utf8_lossy(&unhex(f[1])).to_string();
    let ft = FileType::Text { archival_type: fta(f[2]), encoding_type: FileTypeTextEncoding::Utf8Ascii };
    let bs: BlockSz = f[3].parse().unwrap();
    let idx: Vec<BlockOffset> = f[4].split(',').filter(|s| !s.is_empty()).map(|s| s.parse().unwrap()).collect();
    let mut br = match BlockReader::new(path, ft, bs) {
        Ok(b) => b,
        Err(e) => return format!("NEWERR {}", e.to_string().replace('\n', " ").replace('\t', " ")),
    };
    let mut out = format!("OK {}", br.filesz());
    for i in idx {
        match br.read_block(i) {
            ResultS3::Found(bp) => {
                let (mut a, mut c): (u128, u128) = (0, 0);
                for b in bp.iter() {
                    a += (*b as u128) + 1;
                    c += a;
                }
                out.push_str(&format!(" {}:F:{}:{}", i, bp.len(), c * 4294967296 + a))
            }
            ResultS3::Done => out.push_str(&format!(" {}:D:0:0", i)),
            ResultS3::Err(_e) => out.push_str(&format!(" {}:E:0:0", i)),
        }
    }
    out
}

fn tarls(f: &[&str]) -> String {
    use std::io::Read;
    let path = String::from_utf8_lossy(&unhex(f[1])).to_string();
    let mut archive = match BlockReader::open_tar(std::path::Path::new(&path)) {
        Ok(a) => a,
        Err(e) => return format!("ERR {}", e),
    };
    // f[2] == "0": archive.entries() (what process_path_tar uses), else entries_with_seek() (BlockReader)
    let seek = !(f.len() > 2 && f[2] == "0");
    let it = match if seek { archive.entries_with_seek() } else { archive.entries() } {
        Ok(i) => i,
        Err(e) => return format!("ERR {}", e),
    };
    let mut out = String::from("OK");
    for (k, er) in it.enumerate() {
        let mut e = match er {
            Ok(e) => e,
            Err(_) => {
                out.push_str(&format!(" {}:ERR", k));
                continue;
            }
        };
        let ty = e.header().entry_type().as_byte();
        let raw_ty = e.header().as_bytes()[156];
        let esz = e.size();
        let hsz = match e.header().size() { Ok(v) => v.to_string(), Err(_) => String::from("E") };
        let mt = match e.header().mtime() { Ok(v) => v.to_string(), Err(_) => String::from("E") };
        let p = match e.path() { Ok(p) => hex(p.to_string_lossy().as_bytes()), Err(_) => String::from("E") };
        let pos = e.raw_file_position();
        let mut data = Vec::new();
        let dh = match e.read_to_end(&mut data) { Ok(_) => hex(&data), Err(_) => String::from("E") };
        let _ = ty;
        let rawp = hex(&e.path_bytes());
        out.push_str(&format!(" {}:{}:{}:{}:{}:{}:{}:{}:{}", k, raw_ty, esz, hsz, mt, p, pos, dh, rawp));
    }
    out
}

fn pptar(f: &[&str]) -> String {
    use s4lib::readers::filepreprocessor::{process_path_tar, ProcessPathResult};
    let path = String::from_utf8_lossy(&unhex(f[1])).to_string();
    let rs = process_path_tar(&path, true, FileTypeArchive::Normal);
    let mut out = String::from("OK");
    for r in rs {
        match r {
            ProcessPathResult::FileValid(p, _) | ProcessPathResult::FileErrNotSupported(p, _) => {
                out.push_str(&format!(" L:{}", hex(p.as_bytes())))
            }
            ProcessPathResult::FileErrEmpty(p, _) => out.push_str(&format!(" E:{}", hex(p.as_bytes()))),
            ProcessPathResult::FileErr(_, _) => out.push_str(" X"),
            _ => out.push_str(" ?"),
        }
    }
    out
}

fn ntf(f: &[&str]) -> String {
    use s4lib::readers::filedecompressor::decompress_to_ntf;
    let path = String::from_utf8_lossy(&unhex(f[1])).to_string();
    let ft = if f[3] == "e" { FileType::Evtx { archival_type: fta(f[2]) } } else { FileType::Journal { archival_type: fta(f[2]) } };
    let r = std::panic::catch_unwind(std::panic::AssertUnwindSafe(|| decompress_to_ntf(std::path::Path::new(&path), &ft)));
    match r {
        Err(_) => String::from("OK 0 MPANIC "),
        Ok(Err(e)) => format!("ERR {}", e.to_string().replace('\n', " ").replace('\t', " ")),
        Ok(Ok(None)) => String::from("OKNONE"),
        Ok(Ok(Some((ntf, mt, sz)))) => {
            let data = std::fs::read(ntf.path()).unwrap_or_default();
            let m = match mt { Some(t) => st_fmt(t), None => String::from("NONE") };
            format!("OK {} {} {}", sz, m, hex(&data))
        }
    }
}

fn lz4enc(f: &[&str]) -> String {
    use lz4_flex::frame::{BlockMode, BlockSize, FrameEncoder, FrameInfo};
    let inp = String::from_utf8_lossy(&unhex(f[1])).to_string();
    let outp = String::from_utf8_lossy(&unhex(f[2])).to_string();
    let data = std::fs::read(&inp).unwrap();
    let bsz = match f[3] {
        "4" => BlockSize::Max64KB,
        "5" => BlockSize::Max256KB,
        "6" => BlockSize::Max1MB,
        _ => BlockSize::Max4MB,
    };
    let mode = if f[4] == "1" { BlockMode::Linked } else { BlockMode::Independent };
    let info = FrameInfo::new().block_size(bsz).block_mode(mode).content_checksum(f[5] == "1");
    let file = std::fs::File::create(&outp).unwrap();
    let mut enc = FrameEncoder::with_frame_info(info, file);
    enc.write_all(&data).unwrap();
    enc.finish().unwrap();
    format!("OK {}", std::fs::metadata(&outp).unwrap().len())
}

fn main() {
    std::panic::set_hook(Box::new(|_| {}));
    for line in stdin_lines() {
        let f: Vec<&str> = line.split('\t').collect();
        let r = std::panic::catch_unwind(std::panic::AssertUnwindSafe(|| match f[0] {
            "blocks" => blocks(&f),
            "lz4enc" => lz4enc(&f),
            "open" => open(&f),
            "openh" => openh(&f),
            "tarls" => tarls(&f),
            "pptar" => pptar(&f),
            "ntf" => ntf(&f),
            _ => String::from("BADCMD"),
        }));
        match r {
            Ok(s) => println!("{}", s),
            Err(_) => println!("PANIC"),
        }
    }
}
