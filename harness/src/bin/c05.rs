//! C05: BlockReader in-process on stored (compressed / archived) files.
//! in (TAB separated):
//!   blocks  <hex path> <fta 0 normal 1 bz2 2 gz 3 lz4 4 tar 5 xz> <blocksz> <drop 1|0> <i,i,i,...>
//!       out: OK <filesz> <count_blocks_processed after new> <i>:F:<hex>|<i>:D:|<i>:E: ...
//!            NEWERR <message>            (BlockReader::new failed)
//!            PANIC
//!   lz4enc  <hex inpath> <hex outpath> <block size 4..7> <linked 0|1> <content checksum 0|1>
//!       out: OK <compressed size>        (frame written with lz4_flex::frame::FrameEncoder)
use s4lib::common::{FileType, FileTypeArchive, FileTypeTextEncoding, ResultS3};
use s4lib::readers::blockreader::{BlockOffset, BlockReader, BlockSz};
use s4verif::*;
use std::io::Write;

fn fta(c: &str) -> FileTypeArchive {
    match c {
        "1" => FileTypeArchive::Bz2,
        "2" => FileTypeArchive::Gz,
        "3" => FileTypeArchive::Lz4,
        "4" => FileTypeArchive::Tar,
        "5" => FileTypeArchive::Xz,
        _ => FileTypeArchive::Normal,
    }
}

fn blocks(f: &[&str]) -> String {
    let path = String::from_utf8_lossy(&unhex(f[1])).to_string();
    let ft = FileType::Text { archival_type: fta(f[2]), encoding_type: FileTypeTextEncoding::Utf8Ascii };
    let bs: BlockSz = f[3].parse().unwrap();
    let drop = f[4] == "1";
    let idx: Vec<BlockOffset> = f[5].split(',').filter(|s| !s.is_empty()).map(|s| s.parse().unwrap()).collect();
    let mut br = match BlockReader::new(path, ft, bs) {
        Ok(b) => b,
        Err(e) => return format!("NEWERR {}", e.to_string().replace('\n', " ").replace('\t', " ")),
    };
    if !drop {
        br.disable_drop_data();
    }
    let mut out = format!("OK {} {}", br.filesz(), br.count_blocks_processed());
    for i in idx {
        match br.read_block(i) {
            ResultS3::Found(bp) => out.push_str(&format!(" {}:F:{}", i, hex(&bp))),
            ResultS3::Done => out.push_str(&format!(" {}:D:", i)),
            ResultS3::Err(_e) => out.push_str(&format!(" {}:E:", i)),
        }
    }
    out
}

fn lz4enc(f: &[&str]) -> String {
    use lz4_flex::frame::{BlockMode, BlockSize, FrameEncoder, FrameInfo};
    let inp = String::from_utf8_lossy(&unhex(f[1])).to_string();
    let outp = String::from_utf8_lossy(&unhex(f[2])).to_string();
    let data = std::fs::read(&inp).unwrap();
    let bsz = match f[3] {
        "4" => BlockSize::Max64KB,
        "5" => BlockSize::Max256KB,
        "6" => BlockSize::Max1MB,
        _ => BlockSize::Max4MB,
    };
    let mode = if f[4] == "1" { BlockMode::Linked } else { BlockMode::Independent };
    let info = FrameInfo::new().block_size(bsz).block_mode(mode).content_checksum(f[5] == "1");
    let file = std::fs::File::create(&outp).unwrap();
    let mut enc = FrameEncoder::with_frame_info(info, file);
    enc.write_all(&data).unwrap();
    enc.finish().unwrap();
    format!("OK {}", std::fs::metadata(&outp).unwrap().len())
}

fn main() {
    std::panic::set_hook(Box::new(|_| {}));
    for line in stdin_lines() {
        let f: Vec<&str> = line.split('\t').collect();
        let r = std::panic::catch_unwind(std::panic::AssertUnwindSafe(|| match f[0] {
            "blocks" => blocks(&f),
            "lz4enc" => lz4enc(&f),
            _ => String::from("BADCMD"),
        }));
        match r {
            Ok(s) => println!("{}", s),
            Err(_) => println!("PANIC"),
        }
    }
}
