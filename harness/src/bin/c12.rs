//! C12 (block-zero acceptance gate): in-process driver.
//!
//! usage: c12 <scratch dir>          commands on stdin, TAB separated, one answer line each
//!   F <hex>     write the bytes to a new file <dir>/gNNN.log
//!   M <hex>     the ORACLE for one line: every row of DATETIME_PARSE_DATAS whose
//!               bytes_to_regex_to_datetime returns Some on the row's slice [0, min(len, range.end)) of the
//!               line (exactly the slice find_datetime_in_line hands to the regex; no EZCHECK, no length
//!               pre-check)        -> M <row>:<slice_end>:<dt seconds>:<dt_end index in the line>,...
//!   G <bs>      SyslogProcessor::new + process_stage0_valid_file_check + process_stage1_blockzero_analysis
//!               (what exec_syslogprocessor runs), then summary_complete():
//!                 -> G <result> <patterns r:c,...> <regex_captures_attempted>
//!                      <ez12 hit,miss,hitmax> <ezd2 hit,miss,hitmax> <ez12d2 hit,miss,hitmax> <parse lru hit,miss,put>
//!                      <syslines stored> <stage2 result or - >
//!               patterns = SummarySyslineReader.syslinereader_patterns (count > 0): after a FileOk gate this is
//!               the ONE chosen row with its final count
//!   P <bs>      first pass of blockzero_analysis_syslines replayed on a bare SyslineReader through the public
//!               find_sysline_in_block (found_min from BLOCKZERO_ANALYSIS_SYSLINE_COUNT_MIN_MAP): the per-row
//!               counts BEFORE dt_patterns_analysis
//!                 -> P <found> <patterns r:c,...> <regex_captures_attempted> <ez...> <parse lru ...>
//!   T <bs>      SyslogProcessor exactly as exec_syslogprocessor drives it (stages 0..3, drop_data_try, no filters):
//!                 -> T <gate result> <n> <beg,end,instant ns>...     (the INSTANT attributed to every message)
//!   R <bs>      find_sysline(0), then at each returned offset, on a bare SyslineReader (any bs >= 1, all patterns)
//!                 -> R OK <n> <beg,end,instant ns>...
use s4lib::common::{Count, FileOffset, FileType, FileTypeArchive, FileTypeTextEncoding, FPath, ResultS3};
use s4lib::data::sysline::SyslineP;
use s4lib::data::datetime::{bytes_to_regex_to_datetime, DATETIME_PARSE_DATAS, DATETIME_PARSE_DATAS_LEN};
use s4lib::readers::summary::SummaryReaderData;
use s4lib::readers::syslinereader::{SummarySyslineReader, SyslineReader};
use s4lib::readers::syslogprocessor::{
    FileProcessingResultBlockZero, SyslogProcessor, BLOCKZERO_ANALYSIS_SYSLINE_COUNT_MIN_MAP,
};
use s4verif::*;
use std::panic::{catch_unwind, AssertUnwindSafe};

const FT: FileType = FileType::Text {
    archival_type: FileTypeArchive::Normal,
    encoding_type: FileTypeTextEncoding::Utf8Ascii,
};

fn tz() -> chrono::FixedOffset {
    chrono::FixedOffset::east_opt(0).unwrap()
}

fn result_name(r: &FileProcessingResultBlockZero) -> String {
    let s = format!("{:?}", r);
    s.split(|c: char| !c.is_alphanumeric()).next().unwrap_or("").to_string()
}

fn counters(s: &SummarySyslineReader) -> String {
    let mut pats: Vec<(usize, Count)> = s.syslinereader_patterns.iter().map(|(k, v)| (*k, *v)).collect();
    pats.sort();
    let p: Vec<String> = pats.iter().map(|(k, v)| format!("{}:{}", k, v)).collect();
    format!(
        "{}\t{}\t{},{},{}\t{},{},{}\t{},{},{}\t{},{},{}",
        p.join(","),
        s.syslinereader_regex_captures_attempted,
        s.syslinereader_ezcheck12_hit,
        s.syslinereader_ezcheck12_miss,
        s.syslinereader_ezcheck12_hit_max,
        s.syslinereader_ezcheckd2_hit,
        s.syslinereader_ezcheckd2_miss,
        s.syslinereader_ezcheckd2_hit_max,
        s.syslinereader_ezcheck12d2_hit,
        s.syslinereader_ezcheck12d2_miss,
        s.syslinereader_ezcheck12d2_hit_max,
        s.syslinereader_parse_datetime_in_line_lru_cache_hit,
        s.syslinereader_parse_datetime_in_line_lru_cache_miss,
        s.syslinereader_parse_datetime_in_line_lru_cache_put,
    )
}

fn gate(path: &FPath, bs: u64) -> String {
    let mut sp = match SyslogProcessor::new(path.clone(), FT, bs, tz(), None, None) {
        Ok(v) => v,
        Err(_) => return "G\tErrNew".to_string(),
    };
    let _r0 = sp.process_stage0_valid_file_check();
    let r1 = sp.process_stage1_blockzero_analysis();
    let summary = sp.summary_complete();
    let (cs, stored) = match &summary.readerdata {
        SummaryReaderData::Syslog((_b, _l, s, _p)) => (counters(s), s.syslinereader_syslines_stored_highest),
        _ => ("-".to_string(), 0),
    };
    let r2 = if r1.is_ok() { result_name(&sp.process_stage2_find_dt(&None)) } else { "-".to_string() };
    format!("G\t{}\t{}\t{}\t{}", result_name(&r1), cs, stored, r2)
}

fn pass1(path: &FPath, bs: u64) -> String {
    let mut slr = match SyslineReader::new(path.clone(), FT, bs, tz()) {
        Ok(v) => v,
        Err(_) => return "P\tErrNew".to_string(),
    };
    let filesz = slr.filesz();
    let blocksz0: u64 = std::cmp::min(bs, filesz);
    let found_min: Count = match BLOCKZERO_ANALYSIS_SYSLINE_COUNT_MIN_MAP.get(&blocksz0) {
        Some(v) => *v,
        None => return "P\tNoThreshold".to_string(),
    };
    let mut fo: FileOffset = 0;
    let mut found: Count = 0;
    while found < found_min && slr.block_offset_at_file_offset(fo) == 0 {
        fo = match slr.find_sysline_in_block(fo) {
            (ResultS3::Found((fo_next, _s)), _) => {
                found += 1;
                fo_next
            }
            (ResultS3::Done, partial_found) => {
                if partial_found {
                    found += 1;
                }
                break;
            }
            (ResultS3::Err(_), _) => return "P\tErr".to_string(),
        };
    }
    format!("P\t{}\t{}", found, counters(&slr.summary()))
}

fn item_ns(s: &SyslineP) -> String {
    let ns: i128 = (s.dt().timestamp() as i128) * 1_000_000_000 + (s.dt().timestamp_subsec_nanos() as i128);
    format!("{},{},{}", s.fileoffset_begin(), s.fileoffset_end(), ns)
}

fn raw_driver(path: &FPath, bs: u64) -> String {
    let mut slr = match SyslineReader::new(path.clone(), FT, bs, tz()) {
        Ok(v) => v,
        Err(_) => return "R\tErrNew".to_string(),
    };
    let mut items: Vec<String> = Vec::new();
    let mut fo: FileOffset = 0;
    loop {
        match slr.find_sysline(fo) {
            ResultS3::Found((fo_next, syslinep)) => {
                let is_last = slr.is_sysline_last(&syslinep);
                items.push(item_ns(&syslinep));
                fo = fo_next;
                if is_last {
                    break;
                }
            }
            ResultS3::Done => break,
            ResultS3::Err(_) => return "R\tErr".to_string(),
        }
        if items.len() > 1_000_000 {
            return "R\tLOOP".to_string();
        }
    }
    format!("R\tOK\t{}\t{}", items.len(), items.join("\t"))
}

/// mirrors exec_syslogprocessor of src/bin/s4.rs (no datetime filters)
fn stage_driver(path: &FPath, bs: u64) -> String {
    let mut sp = match SyslogProcessor::new(path.clone(), FT, bs, tz(), None, None) {
        Ok(v) => v,
        Err(_) => return "T\tErrNew".to_string(),
    };
    let _r0 = sp.process_stage0_valid_file_check();
    let r1 = sp.process_stage1_blockzero_analysis();
    if !r1.is_ok() {
        return format!("T\t{}\t0", result_name(&r1));
    }
    let r2 = sp.process_stage2_find_dt(&None);
    if !r2.is_ok() {
        return format!("T\tStage2{}\t0", result_name(&r2));
    }
    let mut items: Vec<String> = Vec::new();
    let mut fo1: FileOffset = 0;
    let search_more: bool;
    match sp.find_sysline_between_datetime_filters(0) {
        ResultS3::Found((fo, syslinep)) => {
            fo1 = fo;
            let is_last = sp.is_sysline_last(&syslinep);
            items.push(item_ns(&syslinep));
            search_more = !is_last;
        }
        ResultS3::Done => search_more = false,
        ResultS3::Err(_) => return "T\tErrFind".to_string(),
    }
    if search_more {
        sp.process_stage3_stream_syslines();
        let mut syslinep_last_opt: Option<SyslineP> = None;
        loop {
            match sp.find_sysline_between_datetime_filters(fo1) {
                ResultS3::Found((fo, syslinep)) => {
                    let syslinep_tmp = syslinep.clone();
                    let is_last = sp.is_sysline_last(&syslinep);
                    items.push(item_ns(&syslinep));
                    fo1 = fo;
                    if is_last {
                        break;
                    }
                    if let Some(syslinep_last) = syslinep_last_opt {
                        sp.drop_data_try(&syslinep_last);
                    }
                    syslinep_last_opt = Some(syslinep_tmp);
                }
                ResultS3::Done => break,
                ResultS3::Err(_) => return "T\tErrFind".to_string(),
            }
            if items.len() > 1_000_000 {
                return "T\tLOOP".to_string();
            }
        }
    }
    format!("T\tFileOk\t{}\t{}", items.len(), items.join("\t"))
}

fn oracle(line: &[u8]) -> String {
    let fo = tz();
    let fos = fo.to_string();
    let mut out: Vec<String> = Vec::new();
    for i in 0..DATETIME_PARSE_DATAS_LEN {
        let d = &DATETIME_PARSE_DATAS[i];
        if line.len() <= d.range_regex.start {
            continue;
        }
        let end = std::cmp::min(line.len(), d.range_regex.end);
        if d.range_regex.start >= end {
            continue;
        }
        let sl = &line[d.range_regex.start..end];
        match catch_unwind(|| bytes_to_regex_to_datetime(sl, &i, &None, &fo, &fos)) {
            Ok(Some((_b, e, dt))) => out.push(format!("{}:{}:{}:{}", i, end, dt.timestamp(), e)),
            Ok(None) => {}
            Err(_) => out.push(format!("{}:{}:PANIC", i, end)),
        }
    }
    format!("M\t{}", out.join(","))
}

fn main() {
    let dir = std::env::args().nth(1).expect("usage: c12 <scratch dir>");
    std::panic::set_hook(Box::new(|_| {}));
    let mut nfile: usize = 0;
    let mut path: FPath = String::new();
    for line in stdin_lines() {
        let mut it = line.split('\t');
        let cmd = it.next().unwrap_or("");
        let arg = it.next().unwrap_or("");
        match cmd {
            "F" => {
                nfile += 1;
                path = format!("{}/g{:06}.log", dir, nfile % 64);
                std::fs::write(&path, unhex(arg)).expect("write");
                println!("F\tOK");
            }
            "M" => println!("{}", oracle(&unhex(arg))),
            "G" => {
                let bs: u64 = arg.parse().unwrap_or(0);
                let p = path.clone();
                match catch_unwind(AssertUnwindSafe(|| gate(&p, bs))) {
                    Ok(s) => println!("{}", s),
                    Err(_) => println!("G\tPANIC"),
                }
            }
            "P" => {
                let bs: u64 = arg.parse().unwrap_or(0);
                let p = path.clone();
                match catch_unwind(AssertUnwindSafe(|| pass1(&p, bs))) {
                    Ok(s) => println!("{}", s),
                    Err(_) => println!("P\tPANIC"),
                }
            }
            "T" | "R" => {
                let bs: u64 = arg.parse().unwrap_or(0);
                let p = path.clone();
                let c = cmd.to_string();
                match catch_unwind(AssertUnwindSafe(|| if c == "T" { stage_driver(&p, bs) } else { raw_driver(&p, bs) })) {
                    Ok(s) => println!("{}", s),
                    Err(_) => println!("{}\tPANIC", cmd),
                }
            }
            _ => println!("?\tunknown command"),
        }
    }
}
