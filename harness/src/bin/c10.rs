//! C10: event-log (.evtx) records.
//!
//! `c10 dump <path>`
//!     an independent dump made with the `evtx` crate directly (no EvtxReader): one line per
//!     enumerated record, in enumeration (file) order, single threaded:
//!     `R <index> <record id> <creation time, nanoseconds since the epoch> <hex of the XML text>`
//!     or `E <index>` for a record the parser could not decode.
//!
//! `c10 reader <path> <after|-> <before|->`     (bounds in nanoseconds)
//!     EvtxReader itself (new / analyze / next) on a plain file:
//!     `N <record id> <nanoseconds>` per record in the order `next` returns them.
//!
//! `c10` (cases on stdin): the map logic of EvtxReader::analyze / next on synthetic sequences,
//!     built from the crate's own pieces (`ts_pass_filters`, the `Events` BTreeMap keyed
//!     `(Timestamp, usize)`, `Evtx::from_evtxrs`), the loop of `analyze` copied here:
//!     in : <after ns|-> TAB <before ns|-> TAB comma list of timestamps in ns (`x` = Err record)
//!     out: indexes in pop_first order, comma separated (`-` when none)
use chrono::{DateTime, TimeZone, Utc};
use evtx::{EvtxParser, ParserSettings, SerializedEvtxRecord};
use s4lib::common::{FileType, FileTypeArchive};
use s4lib::data::datetime::{DateTimeLOpt, Result_Filter_DateTime2};
use s4lib::data::evtx::Evtx;
use s4lib::readers::evtxreader::{ts_pass_filters, Events, EvtxReader, Timestamp, TimestampOpt};
use s4verif::*;

fn ns(t: &DateTime<Utc>) -> i128 {
    (t.timestamp() as i128) * 1_000_000_000 + (t.timestamp_subsec_nanos() as i128)
}

fn from_ns(v: i128) -> DateTime<Utc> {
    let s = v.div_euclid(1_000_000_000) as i64;
    let n = v.rem_euclid(1_000_000_000) as u32;
    Utc.timestamp_opt(s, n).unwrap()
}

fn opt_ns(s: &str) -> TimestampOpt {
    if s == "-" || s.is_empty() {
        None
    } else {
        Some(from_ns(s.parse::<i128>().unwrap()))
    }
}

fn dump(path: &str) {
    let settings = ParserSettings::default().num_threads(1);
    let mut parser = match EvtxParser::from_path(path) {
        Ok(p) => p.with_configuration(settings),
        Err(e) => {
            println!("OPENERR {}", e);
            return;
        }
    };
    for (index, r) in parser.records().enumerate() {
        match r {
            Ok(rec) => println!("R {} {} {} {}", index, rec.event_record_id, ns(&rec.timestamp), hex(rec.data.as_bytes())),
            Err(_) => println!("E {}", index),
        }
    }
    println!("END");
}

fn reader(path: &str, a: &str, b: &str) {
    let ft = FileType::Evtx { archival_type: FileTypeArchive::Normal };
    let mut r = match EvtxReader::new(path.to_string(), ft) {
        Ok(r) => r,
        Err(e) => {
            println!("NEWERR {}", e);
            return;
        }
    };
    let fo = chrono::FixedOffset::east_opt(0).unwrap();
    let da: DateTimeLOpt = opt_ns(a).map(|t| t.with_timezone(&fo));
    let db: DateTimeLOpt = opt_ns(b).map(|t| t.with_timezone(&fo));
    r.analyze(&da, &db);
    while let Some(e) = r.next() {
        let t: DateTime<Utc> = e.dt().with_timezone(&Utc);
        println!("N {} {}", e.id(), ns(&t));
    }
    println!("END");
}

fn map_case(line: &str) -> String {
    let v: Vec<&str> = line.split('\t').collect();
    let fa = opt_ns(v[0]);
    let fb = opt_ns(v[1]);
    let mut events = Events::new();
    let items: Vec<&str> = if v.len() > 2 && !v[2].is_empty() { v[2].split(',').collect() } else { Vec::new() };
    // the loop of EvtxReader::analyze
    for (index, it) in items.iter().enumerate() {
        if *it == "x" {
            continue; // Err(err) => self.error = Some(..)
        }
        let timestamp: Timestamp = from_ns(it.parse::<i128>().unwrap());
        let record = SerializedEvtxRecord::<String> {
            event_record_id: index as u64,
            timestamp,
            data: format!("r{}", index),
        };
        match ts_pass_filters(&record.timestamp, &fa, &fb) {
            Result_Filter_DateTime2::InRange => {}
            Result_Filter_DateTime2::BeforeRange => continue,
            Result_Filter_DateTime2::AfterRange => continue,
        }
        let timestamp = record.timestamp;
        let evtx = Evtx::from_evtxrs(&record);
        events.insert((timestamp, index), evtx);
    }
    // EvtxReader::next until None
    let mut out: Vec<String> = Vec::new();
    while let Some((_k, e)) = events.pop_first() {
        out.push(format!("{}", e.id()));
    }
    if out.is_empty() {
        "-".to_string()
    } else {
        out.join(",")
    }
}

fn main() {
    let args: Vec<String> = std::env::args().collect();
    if args.len() > 2 && args[1] == "dump" {
        dump(&args[2]);
        return;
    }
    if args.len() > 4 && args[1] == "reader" {
        reader(&args[2], &args[3], &args[4]);
        return;
    }
    std::panic::set_hook(Box::new(|_| {}));
    for line in stdin_lines() {
        let l = line.clone();
        match std::panic::catch_unwind(move || map_case(&l)) {
            Ok(s) => println!("{}", s),
            Err(_) => println!("PANIC"),
        }
    }
}
