//! C03: in-process driver for the datetime searches of SyslineReader.
//!
//! commands on stdin, TAB separated, one answer line each
//!   O <path> <bs> <0|1 gz>   fresh SyslineReader on the file (empty caches)      -> O OK | O Err | O PANIC
//!   Q <mode> <A> <B> <fo>    A, B: nanoseconds since the epoch or "-" (no bound)
//!        mode 0  find_sysline_at_datetime_filter_binary_search(fo, A)
//!        mode 1  find_sysline_at_datetime_filter_linear_search(fo, A)
//!        mode 2  find_sysline_between_datetime_filters(fo, A, B)   (strategy chosen by the reader:
//!                binary search on a plain file, linear on a streamed one)
//!        mode 4  find_sysline(fo)
//!        mode 5  find_sysline_at_datetime_filter(fo, A)            (strategy chosen by the reader)
//!      -> Q Found <begin> <fo_next> <instant ns> <calls> | Q Done <calls> | Q Err | Q PANIC
//!         <calls> = number of find_sysline calls made (LRU cache hit + miss counters of summary())
use chrono::{DateTime, FixedOffset, TimeZone};
use s4lib::common::{FileOffset, FileType, FileTypeArchive, FileTypeTextEncoding, FPath, ResultS3};
use s4lib::readers::syslinereader::SyslineReader;
use s4verif::*;
use std::panic::{catch_unwind, AssertUnwindSafe};

fn tz() -> FixedOffset {
    FixedOffset::east_opt(0).unwrap()
}

fn bound(s: &str) -> Option<DateTime<FixedOffset>> {
    if s == "-" {
        return None;
    }
    let ns: i64 = s.parse().expect("bound");
    Some(tz().timestamp_nanos(ns))
}

fn main() {
    std::panic::set_hook(Box::new(|_| {}));
    let mut slr: Option<SyslineReader> = None;
    for line in stdin_lines() {
        let f: Vec<&str> = line.split('\t').collect();
        match f[0] {
            "O" => {
                slr = None;
                let path: FPath = f[1].to_string();
                let bs: u64 = f[2].parse().unwrap_or(0);
                let ft = FileType::Text {
                    archival_type: if f[3] == "1" { FileTypeArchive::Gz } else { FileTypeArchive::Normal },
                    encoding_type: FileTypeTextEncoding::Utf8Ascii,
                };
                match catch_unwind(AssertUnwindSafe(|| SyslineReader::new(path, ft, bs, tz()))) {
                    Ok(Ok(r)) => {
                        slr = Some(r);
                        println!("O\tOK");
                    }
                    Ok(Err(e)) => println!("O\tErr\t{}", e.to_string().replace('\n', " ")),
                    Err(_) => println!("O\tPANIC"),
                }
            }
            "Q" => {
                let mode: u32 = f[1].parse().unwrap_or(99);
                let a = bound(f[2]);
                let b = bound(f[3]);
                let fo: FileOffset = f[4].parse().unwrap_or(0);
                let out = match slr.as_mut() {
                    None => "Q\tNoReader".to_string(),
                    Some(r) => {
                        let calls = |r: &SyslineReader| -> u64 {
                            let su = r.summary();
                            su.syslinereader_find_sysline_lru_cache_hit + su.syslinereader_find_sysline_lru_cache_miss
                        };
                        let c0 = calls(r);
                        let res = catch_unwind(AssertUnwindSafe(|| match mode {
                            0 => r.find_sysline_at_datetime_filter_binary_search(fo, &a),
                            1 => r.find_sysline_at_datetime_filter_linear_search(fo, &a),
                            2 => r.find_sysline_between_datetime_filters(fo, &a, &b),
                            4 => r.find_sysline(fo),
                            _ => r.find_sysline_at_datetime_filter(fo, &a),
                        }));
                        match res {
                            Ok(ResultS3::Found((fo_next, s))) => format!(
                                "Q\tFound\t{}\t{}\t{}\t{}",
                                s.fileoffset_begin(),
                                fo_next,
                                s.dt().timestamp_nanos_opt().unwrap_or(i64::MIN),
                                calls(r) - c0
                            ),
                            Ok(ResultS3::Done) => format!("Q\tDone\t{}", calls(r) - c0),
                            Ok(ResultS3::Err(_)) => "Q\tErr".to_string(),
                            Err(_) => "Q\tPANIC".to_string(),
                        }
                    }
                };
                println!("{}", out);
            }
            _ => println!("?"),
        }
    }
}
