//! C02 / C12: in-process driver for LineReader::find_line, SyslineReader::find_sysline and the
//! stage driver (SyslogProcessor, as exec_syslogprocessor uses it) on a temp file.
//!
//! usage: c02 <scratch dir>          commands on stdin, TAB separated, one answer line each
//!   F <hex>     write the bytes to a new file <dir>/cNNN.log (readers are dropped)
//!   B <bs>      block size; fresh LineReader + SyslineReader (empty caches)
//!   L <fo>      LineReader::find_line(fo)
//!                 -> L Found <fo_next> <beg> <end> <nparts> <bo_first> <bo_last> <hex bytes> | L Done | L Err | L PANIC
//!   S <fo>      SyslineReader::find_sysline(fo)
//!                 -> S Found <fo_next> <beg> <end> <nlines> <dt seconds> <hex bytes> | S Done | ...
//!   R           the stage-3 driver loop on a FRESH SyslineReader (any bs >= 1): find_sysline(0), then at
//!               each returned fo_next until Done or is_sysline_last
//!                 -> R OK <n> <beg,end,nlines,dt,hex>...
//!   D           SyslogProcessor exactly as exec_syslogprocessor drives it (stages 0..3, drop_data_try);
//!               needs bs >= SyslogProcessor::BLOCKSZ_MIN (0x40 without debug assertions)
//!                 -> D <FileProcessingResult of the gate> <n> <beg,end,nlines,dt,hex>...
use s4lib::common::{FileOffset, FileType, FileTypeArchive, FileTypeTextEncoding, FPath, ResultS3};
use s4lib::data::line::{LineP, LinePartPtrs};
use s4lib::data::sysline::SyslineP;
use s4lib::readers::linereader::LineReader;
use s4lib::readers::syslinereader::SyslineReader;
use s4lib::readers::syslogprocessor::{FileProcessingResultBlockZero, SyslogProcessor};
use s4verif::*;
use std::panic::{catch_unwind, AssertUnwindSafe};

const FT: FileType = FileType::Text {
    archival_type: FileTypeArchive::Normal,
    encoding_type: FileTypeTextEncoding::Utf8Ascii,
};

fn line_bytes(linep: &LineP) -> Vec<u8> {
    let mut v: Vec<u8> = Vec::new();
    match linep.get_boxptrs(0, linep.len()) {
        LinePartPtrs::NoPtr => {}
        LinePartPtrs::SinglePtr(a) => v.extend_from_slice(*a),
        LinePartPtrs::DoublePtr(a, b) => {
            v.extend_from_slice(*a);
            v.extend_from_slice(*b);
        }
        LinePartPtrs::MultiPtr(ps) => {
            for p in ps.iter() {
                v.extend_from_slice(**p);
            }
        }
    }
    v
}

fn sysline_item(s: &SyslineP) -> String {
    format!(
        "{},{},{},{},{}",
        s.fileoffset_begin(),
        s.fileoffset_end(),
        s.count_lines(),
        s.dt().timestamp(),
        hex(&s.verif_bytes())
    )
}

fn tz() -> chrono::FixedOffset {
    chrono::FixedOffset::east_opt(0).unwrap()
}

fn result_name(r: &FileProcessingResultBlockZero) -> String {
    let s = format!("{:?}", r);
    s.split(|c: char| !c.is_alphanumeric()).next().unwrap_or("").to_string()
}

fn raw_driver(path: &FPath, bs: u64) -> String {
    let mut slr = match SyslineReader::new(path.clone(), FT, bs, tz()) {
        Ok(v) => v,
        Err(_) => return "R\tErrNew".to_string(),
    };
    let mut items: Vec<String> = Vec::new();
    let mut fo: FileOffset = 0;
    loop {
        match slr.find_sysline(fo) {
            ResultS3::Found((fo_next, syslinep)) => {
                let is_last = slr.is_sysline_last(&syslinep);
                items.push(sysline_item(&syslinep));
                fo = fo_next;
                if is_last {
                    break;
                }
            }
            ResultS3::Done => break,
            ResultS3::Err(_) => return "R\tErr".to_string(),
        }
        if items.len() > 1_000_000 {
            return "R\tLOOP".to_string();
        }
    }
    format!("R\tOK\t{}\t{}", items.len(), items.join("\t"))
}

/// mirrors exec_syslogprocessor of src/bin/s4.rs (no datetime filters)
fn stage_driver(path: &FPath, bs: u64) -> String {
    let mut sp = match SyslogProcessor::new(path.clone(), FT, bs, tz(), None, None) {
        Ok(v) => v,
        Err(_) => return "D\tErrNew".to_string(),
    };
    let r0 = sp.process_stage0_valid_file_check();
    if !r0.is_ok() {
        // exec_syslogprocessor continues to stage 1, which reports the same condition
    }
    let r1 = sp.process_stage1_blockzero_analysis();
    if !r1.is_ok() {
        return format!("D\t{}\t0", result_name(&r1));
    }
    let r2 = sp.process_stage2_find_dt(&None);
    if !r2.is_ok() {
        return format!("D\tStage2{}\t0", result_name(&r2));
    }
    let mut items: Vec<String> = Vec::new();
    let mut fo1: FileOffset = 0;
    let search_more: bool;
    match sp.find_sysline_between_datetime_filters(0) {
        ResultS3::Found((fo, syslinep)) => {
            fo1 = fo;
            let is_last = sp.is_sysline_last(&syslinep);
            items.push(sysline_item(&syslinep));
            search_more = !is_last;
        }
        ResultS3::Done => search_more = false,
        ResultS3::Err(_) => return "D\tErrFind".to_string(),
    }
    if search_more {
        sp.process_stage3_stream_syslines();
        let mut syslinep_last_opt: Option<SyslineP> = None;
        loop {
            match sp.find_sysline_between_datetime_filters(fo1) {
                ResultS3::Found((fo, syslinep)) => {
                    let syslinep_tmp = syslinep.clone();
                    let is_last = sp.is_sysline_last(&syslinep);
                    items.push(sysline_item(&syslinep));
                    fo1 = fo;
                    if is_last {
                        break;
                    }
                    if let Some(syslinep_last) = syslinep_last_opt {
                        sp.drop_data_try(&syslinep_last);
                    }
                    syslinep_last_opt = Some(syslinep_tmp);
                }
                ResultS3::Done => break,
                ResultS3::Err(_) => return "D\tErrFind".to_string(),
            }
            if items.len() > 1_000_000 {
                return "D\tLOOP".to_string();
            }
        }
    }
    format!("D\tFileOk\t{}\t{}", items.len(), items.join("\t"))
}

fn main() {
    let dir = std::env::args().nth(1).expect("usage: c02 <scratch dir>");
    std::panic::set_hook(Box::new(|_| {}));
    let mut nfile: usize = 0;
    let mut path: FPath = String::new();
    let mut bs: u64 = 0;
    let mut lr: Option<LineReader> = None;
    let mut slr: Option<SyslineReader> = None;
    for line in stdin_lines() {
        let mut it = line.split('\t');
        let cmd = it.next().unwrap_or("");
        let arg = it.next().unwrap_or("");
        match cmd {
            "F" => {
                lr = None;
                slr = None;
                nfile += 1;
                path = format!("{}/c{:06}.log", dir, nfile % 64);
                std::fs::write(&path, unhex(arg)).expect("write");
                println!("F\tOK");
            }
            "B" => {
                bs = arg.parse().unwrap_or(0);
                lr = None;
                slr = None;
                let p = path.clone();
                let r = catch_unwind(AssertUnwindSafe(|| {
                    (LineReader::new(p.clone(), FT, bs), SyslineReader::new(p.clone(), FT, bs, tz()))
                }));
                match r {
                    Ok((Ok(a), Ok(b))) => {
                        lr = Some(a);
                        slr = Some(b);
                        println!("B\tOK");
                    }
                    Ok(_) => println!("B\tErr"),
                    Err(_) => println!("B\tPANIC"),
                }
            }
            "L" => {
                let fo: FileOffset = arg.parse().unwrap_or(0);
                let out = match lr.as_mut() {
                    None => "L\tNoReader".to_string(),
                    Some(r) => match catch_unwind(AssertUnwindSafe(|| r.find_line(fo))) {
                        Ok(ResultS3::Found((fo_next, linep))) => format!(
                            "L\tFound\t{}\t{}\t{}\t{}\t{}\t{}\t{}",
                            fo_next,
                            linep.fileoffset_begin(),
                            linep.fileoffset_end(),
                            linep.count_lineparts(),
                            linep.blockoffset_first(),
                            linep.blockoffset_last(),
                            hex(&line_bytes(&linep))
                        ),
                        Ok(ResultS3::Done) => "L\tDone".to_string(),
                        Ok(ResultS3::Err(_)) => "L\tErr".to_string(),
                        Err(_) => "L\tPANIC".to_string(),
                    },
                };
                if out == "L\tPANIC" {
                    lr = LineReader::new(path.clone(), FT, bs).ok();
                }
                println!("{}", out);
            }
            "S" => {
                let fo: FileOffset = arg.parse().unwrap_or(0);
                let out = match slr.as_mut() {
                    None => "S\tNoReader".to_string(),
                    Some(r) => match catch_unwind(AssertUnwindSafe(|| r.find_sysline(fo))) {
                        Ok(ResultS3::Found((fo_next, s))) => format!(
                            "S\tFound\t{}\t{}\t{}\t{}\t{}\t{}",
                            fo_next,
                            s.fileoffset_begin(),
                            s.fileoffset_end(),
                            s.count_lines(),
                            s.dt().timestamp(),
                            hex(&s.verif_bytes())
                        ),
                        Ok(ResultS3::Done) => "S\tDone".to_string(),
                        Ok(ResultS3::Err(_)) => "S\tErr".to_string(),
                        Err(_) => "S\tPANIC".to_string(),
                    },
                };
                if out == "S\tPANIC" {
                    slr = SyslineReader::new(path.clone(), FT, bs, tz()).ok();
                }
                println!("{}", out);
            }
            "R" => {
                let p = path.clone();
                match catch_unwind(AssertUnwindSafe(|| raw_driver(&p, bs))) {
                    Ok(s) => println!("{}", s),
                    Err(_) => println!("R\tPANIC"),
                }
            }
            "D" => {
                let p = path.clone();
                match catch_unwind(AssertUnwindSafe(|| stage_driver(&p, bs))) {
                    Ok(s) => println!("{}", s),
                    Err(_) => println!("D\tPANIC"),
                }
            }
            _ => println!("?"),
        }
    }
}
