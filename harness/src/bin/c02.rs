//! C02 / C12: in-process driver for LineReader::find_line, SyslineReader::find_sysline and the
//! stage driver (SyslogProcessor, as exec_syslogprocessor uses it) on a temp file.
//!
//! usage: c02 <scratch dir>          commands on stdin, TAB separated, one answer line each
//!   F <hex>     write the bytes to a new file <dir>/cNNN.log (readers are dropped)
//!   B <bs>      block size; fresh LineReader + SyslineReader (empty caches)
//!   L <fo>      LineReader::find_line(fo)
//!                 -> L Found <fo_next> <beg> <end> <nparts> <bo_first> <bo_last> <hex bytes> | L Done | L Err | L PANIC
//!   S <fo>      SyslineReader::find_sysline(fo)
//!                 -> S Found <fo_next> <beg> <end> <nlines> <dt seconds> <hex bytes> | S Done | ...
//!   R           the stage-3 driver loop on a FRESH SyslineReader (any bs >= 1): find_sysline(0), then at
//!               each returned fo_next until Done or is_sysline_last
//!                 -> R OK <n> <beg,end,nlines,dt,hex>...
//!   D           SyslogProcessor exactly as exec_syslogprocessor drives it (stages 0..3, drop_data_try);
//!               needs bs >= SyslogProcessor::BLOCKSZ_MIN (0x40 without debug assertions)
//!                 -> D <FileProcessingResult of the gate> <n> <beg,end,nlines,dt,hex>...
//!
//! cache mode (WP-A; every answer ends with the counters of `summary()` AFTER the operation):
//!   CL <fo> / CLB <fo>   find_line / find_line_in_block on the stand-alone LineReader
//!                 -> CL Found <7 fields as L> <lc> | CL Done <lc>
//!                 -> CLB Found <7 fields> - <lc> | CLB Done <P,beg,end,hex | -> <lc>
//!   CLE <0|1>     LineReader::LRU_cache_disable / _enable          -> CLE OK <lc>
//!   CS <fo> / CSB <fo>   find_sysline / find_sysline_in_block on the SyslineReader
//!                 -> CS Found <6 fields as S> <sc> | CS Done <sc>
//!                 -> CSB Found <6 fields> <0|1> <sc> | CSB Done <partial_found 0|1> <sc>
//!   CSE <0|1>     SyslineReader::LRU_cache_disable / _enable       -> CSE OK <sc>
//!   CDD <bo>      SyslineReader::drop_data(bo)                     -> CDD OK <sc>
//!   CDS <fo>      SyslineReader::drop_sysline(fo)                  -> CDS OK <sc>
//!   CRD <plan>    the stage-3 driver loop on the CURRENT SyslineReader; plan = string of 0/1 (cyclic,
//!                 `-` = never): whether the i-th drop_data_try opportunity runs drop_data(bo_first-2)
//!                 -> CRD OK <sc> <n> <beg,end,nlines,dt,hex>...
//!   CRW <a>,<b>,<plan>  the same loop with the datetime window: SyslineReader::find_sysline_between_datetime_filters
//!                 (a streamed file: find_sysline_at_datetime_filter_linear_search) instead of find_sysline;
//!                 a, b = unix seconds or `-` (no bound)          -> CRW OK <sc> <n> <beg,end,nlines,dt,hex>...
//!   K <kind>      plain | gz | bz2 | lz4 | xz | tar: the container of the files written by the following F commands
//!                 (F then receives the bytes of the STORED form; the readers are opened with that FileType)
//!   M <path>      the member path inside the archive for kind tar (before F)
//!   T <hex>       the timestamp oracle on arbitrary bytes: a fresh SyslineReader on a file holding
//!                 exactly these bytes, find_sysline(0)             -> T <dt seconds> | T None
//!   lc = lines,stored_highest,hits,miss,lru_hit,lru_miss,lru_put,drop_ok,drop_errors
//!   sc = syslines,stored_highest,hit,miss,range_hit,range_miss,range_put,lru_hit,lru_miss,lru_put,
//!        parse_hit,parse_miss,parse_put,drop_ok,drop_errors,syslines stored,lines processed,
//!        then the nine lc counters of the INNER LineReader (hook verif_linereader_summary)
//!   both followed by the BlockReader's counters (hooks verif_blockreader_summary): read_block_lru_cache
//!        hit,miss,put, read_blocks hit,miss,put, reread_error, blocks_highest, dropped ok,err, blocks read
//!   CXD           BlockReader::disable_drop_data of the SyslineReader (hook)          -> CXD OK <sc>
use s4lib::common::{FileOffset, FileType, FileTypeArchive, FileTypeTextEncoding, FPath, ResultS3};
use s4lib::data::line::{LineP, LinePartPtrs};
use s4lib::data::sysline::SyslineP;
use s4lib::readers::linereader::LineReader;
use s4lib::readers::syslinereader::SyslineReader;
use s4lib::readers::syslogprocessor::{FileProcessingResultBlockZero, SyslogProcessor};
use s4verif::*;
use std::panic::{catch_unwind, AssertUnwindSafe};

const FT_PLAIN: FileType = FileType::Text {
    archival_type: FileTypeArchive::Normal,
    encoding_type: FileTypeTextEncoding::Utf8Ascii,
};

/// container kind of the files written by `F` (command `K plain|gz|bz2|lz4`)
static KIND: std::sync::atomic::AtomicU8 = std::sync::atomic::AtomicU8::new(0);

fn ft() -> FileType {
    let a = match KIND.load(std::sync::atomic::Ordering::Relaxed) {
        1 => FileTypeArchive::Gz,
        2 => FileTypeArchive::Bz2,
        3 => FileTypeArchive::Lz4,
        4 => FileTypeArchive::Xz,
        5 => FileTypeArchive::Tar,
        _ => FileTypeArchive::Normal,
    };
    FileType::Text { archival_type: a, encoding_type: FileTypeTextEncoding::Utf8Ascii }
}

fn ext() -> &'static str {
    match KIND.load(std::sync::atomic::Ordering::Relaxed) {
        1 => ".gz",
        2 => ".bz2",
        3 => ".lz4",
        4 => ".xz",
        5 => ".tar",
        _ => "",
    }
}

fn line_bytes(linep: &LineP) -> Vec<u8> {
    let mut v: Vec<u8> = Vec::new();
    match linep.get_boxptrs(0, linep.len()) {
        LinePartPtrs::NoPtr => {}
        LinePartPtrs::SinglePtr(a) => v.extend_from_slice(*a),
        LinePartPtrs::DoublePtr(a, b) => {
            v.extend_from_slice(*a);
            v.extend_from_slice(*b);
        }
        LinePartPtrs::MultiPtr(ps) => {
            for p in ps.iter() {
                v.extend_from_slice(**p);
            }
        }
    }
    v
}

fn sysline_item(s: &SyslineP) -> String {
    format!(
        "{},{},{},{},{}",
        s.fileoffset_begin(),
        s.fileoffset_end(),
        s.count_lines(),
        s.dt().timestamp(),
        hex(&s.verif_bytes())
    )
}

fn tz() -> chrono::FixedOffset {
    chrono::FixedOffset::east_opt(0).unwrap()
}

fn result_name(r: &FileProcessingResultBlockZero) -> String {
    let s = format!("{:?}", r);
    s.split(|c: char| !c.is_alphanumeric()).next().unwrap_or("").to_string()
}

fn raw_driver(path: &FPath, bs: u64) -> String {
    let mut slr = match SyslineReader::new(path.clone(), ft(), bs, tz()) {
        Ok(v) => v,
        Err(_) => return "R\tErrNew".to_string(),
    };
    let mut items: Vec<String> = Vec::new();
    let mut fo: FileOffset = 0;
    loop {
        match slr.find_sysline(fo) {
            ResultS3::Found((fo_next, syslinep)) => {
                let is_last = slr.is_sysline_last(&syslinep);
                items.push(sysline_item(&syslinep));
                fo = fo_next;
                if is_last {
                    break;
                }
            }
            ResultS3::Done => break,
            ResultS3::Err(_) => return "R\tErr".to_string(),
        }
        if items.len() > 1_000_000 {
            return "R\tLOOP".to_string();
        }
    }
    format!("R\tOK\t{}\t{}", items.len(), items.join("\t"))
}

/// mirrors exec_syslogprocessor of src/bin/s4.rs (no datetime filters)
fn stage_driver(path: &FPath, bs: u64) -> String {
    stage_driver_w(path, bs, None, None)
}

/// `DY <mtime>,<a>,<b>`: set the modification time of the file (unix seconds; `-` = leave it), then the stages of
/// exec_syslogprocessor with the window a..b (`-` = no bound); a log whose timestamps lack a year goes through
/// process_missing_year.  Answer: DY <result> <n> <items> M <mtime seconds the processor reports>
fn stage_driver_year(path: &FPath, bs: u64, spec: &str) -> String {
    use chrono::TimeZone;
    let mut it = spec.split(',');
    let mt = it.next().unwrap_or("-");
    let bound = |s: &str| -> Option<chrono::DateTime<chrono::FixedOffset>> {
        match s.parse::<i64>() {
            Ok(v) => tz().timestamp_opt(v, 0).single(),
            Err(_) => None,
        }
    };
    let after = bound(it.next().unwrap_or("-"));
    let before = bound(it.next().unwrap_or("-"));
    if let Ok(secs) = mt.parse::<u64>() {
        let real = path.split('|').next().unwrap_or("");
        if let Ok(fh) = std::fs::OpenOptions::new().write(true).open(real) {
            let _ = fh.set_modified(std::time::UNIX_EPOCH + std::time::Duration::from_secs(secs));
        }
    }
    let out = stage_driver_w(path, bs, after, before);
    let m = match SyslogProcessor::new(path.clone(), ft(), bs, tz(), None, None) {
        Ok(sp) => sp
            .mtime()
            .duration_since(std::time::UNIX_EPOCH)
            .map(|d| d.as_secs() as i64)
            .unwrap_or(-1),
        Err(_) => -1,
    };
    format!("DY{}\tM\t{}", &out[1..], m)
}

fn stage_driver_w(
    path: &FPath,
    bs: u64,
    after: Option<chrono::DateTime<chrono::FixedOffset>>,
    before: Option<chrono::DateTime<chrono::FixedOffset>>,
) -> String {
    let mut sp = match SyslogProcessor::new(path.clone(), ft(), bs, tz(), after, before) {
        Ok(v) => v,
        Err(_) => return "D\tErrNew".to_string(),
    };
    let r0 = sp.process_stage0_valid_file_check();
    if !r0.is_ok() {
        // exec_syslogprocessor continues to stage 1, which reports the same condition
    }
    let r1 = sp.process_stage1_blockzero_analysis();
    if !r1.is_ok() {
        return format!("D\t{}\t0", result_name(&r1));
    }
    let r2 = sp.process_stage2_find_dt(&after);
    if !r2.is_ok() {
        return format!("D\tStage2{}\t0", result_name(&r2));
    }
    let mut items: Vec<String> = Vec::new();
    let mut fo1: FileOffset = 0;
    let search_more: bool;
    match sp.find_sysline_between_datetime_filters(0) {
        ResultS3::Found((fo, syslinep)) => {
            fo1 = fo;
            let is_last = sp.is_sysline_last(&syslinep);
            items.push(sysline_item(&syslinep));
            search_more = !is_last;
        }
        ResultS3::Done => search_more = false,
        ResultS3::Err(_) => return "D\tErrFind".to_string(),
    }
    if search_more {
        sp.process_stage3_stream_syslines();
        let mut syslinep_last_opt: Option<SyslineP> = None;
        loop {
            match sp.find_sysline_between_datetime_filters(fo1) {
                ResultS3::Found((fo, syslinep)) => {
                    let syslinep_tmp = syslinep.clone();
                    let is_last = sp.is_sysline_last(&syslinep);
                    items.push(sysline_item(&syslinep));
                    fo1 = fo;
                    if is_last {
                        break;
                    }
                    if let Some(syslinep_last) = syslinep_last_opt {
                        sp.drop_data_try(&syslinep_last);
                    }
                    syslinep_last_opt = Some(syslinep_tmp);
                }
                ResultS3::Done => break,
                ResultS3::Err(_) => return "D\tErrFind".to_string(),
            }
            if items.len() > 1_000_000 {
                return "D\tLOOP".to_string();
            }
        }
    }
    format!("D\tFileOk\t{}\t{}", items.len(), items.join("\t"))
}

fn bc(b: &s4lib::readers::blockreader::SummaryBlockReader) -> String {
    format!(
        "{},{},{},{},{},{},{},{},{},{},{}",
        b.blockreader_read_block_lru_cache_hit,
        b.blockreader_read_block_lru_cache_miss,
        b.blockreader_read_block_lru_cache_put,
        b.blockreader_read_blocks_hit,
        b.blockreader_read_blocks_miss,
        b.blockreader_read_blocks_put,
        b.blockreader_read_blocks_reread_error,
        b.blockreader_blocks_highest,
        b.blockreader_blocks_dropped_ok,
        b.blockreader_blocks_dropped_err,
        b.blockreader_blocks
    )
}

fn lc(r: &LineReader) -> String {
    format!("{},{}", lc0(r), bc(&r.verif_blockreader_summary()))
}

fn lc0(r: &LineReader) -> String {
    let s = r.summary();
    format!(
        "{},{},{},{},{},{},{},{},{}",
        s.linereader_lines,
        s.linereader_lines_stored_highest,
        s.linereader_lines_hits,
        s.linereader_lines_miss,
        s.linereader_find_line_lru_cache_hit,
        s.linereader_find_line_lru_cache_miss,
        s.linereader_find_line_lru_cache_put,
        s.linereader_drop_line_ok,
        s.linereader_drop_line_errors
    )
}

fn sc(r: &SyslineReader) -> String {
    format!("{},{}", sc0(r), bc(&r.verif_blockreader_summary()))
}

fn sc0(r: &SyslineReader) -> String {
    let s = r.summary();
    let l = r.verif_linereader_summary();
    format!(
        "{},{},{},{},{},{},{},{},{},{},{},{},{},{},{},{},{},{},{},{},{},{},{},{},{},{}",
        s.syslinereader_syslines,
        s.syslinereader_syslines_stored_highest,
        s.syslinereader_syslines_hit,
        s.syslinereader_syslines_miss,
        s.syslinereader_syslines_by_range_hit,
        s.syslinereader_syslines_by_range_miss,
        s.syslinereader_syslines_by_range_put,
        s.syslinereader_find_sysline_lru_cache_hit,
        s.syslinereader_find_sysline_lru_cache_miss,
        s.syslinereader_find_sysline_lru_cache_put,
        s.syslinereader_parse_datetime_in_line_lru_cache_hit,
        s.syslinereader_parse_datetime_in_line_lru_cache_miss,
        s.syslinereader_parse_datetime_in_line_lru_cache_put,
        s.syslinereader_drop_sysline_ok,
        s.syslinereader_drop_sysline_errors,
        r.count_syslines_stored(),
        r.count_lines_processed(),
        l.linereader_lines,
        l.linereader_lines_stored_highest,
        l.linereader_lines_hits,
        l.linereader_lines_miss,
        l.linereader_find_line_lru_cache_hit,
        l.linereader_find_line_lru_cache_miss,
        l.linereader_find_line_lru_cache_put,
        l.linereader_drop_line_ok,
        l.linereader_drop_line_errors
    )
}

fn line_fields(fo_next: FileOffset, linep: &LineP) -> String {
    format!(
        "{}\t{}\t{}\t{}\t{}\t{}\t{}",
        fo_next,
        linep.fileoffset_begin(),
        linep.fileoffset_end(),
        linep.count_lineparts(),
        linep.blockoffset_first(),
        linep.blockoffset_last(),
        hex(&line_bytes(linep))
    )
}

fn sysline_fields(fo_next: FileOffset, s: &SyslineP) -> String {
    format!(
        "{}\t{}\t{}\t{}\t{}\t{}",
        fo_next,
        s.fileoffset_begin(),
        s.fileoffset_end(),
        s.count_lines(),
        s.dt().timestamp(),
        hex(&s.verif_bytes())
    )
}

/// the stage-3 loop of exec_syslogprocessor on the given reader, drop_data_try as planned
fn cached_driver(slr: &mut SyslineReader, plan: &[bool]) -> String {
    let mut items: Vec<String> = Vec::new();
    let mut fo1: FileOffset;
    match slr.find_sysline(0) {
        ResultS3::Found((fo, syslinep)) => {
            fo1 = fo;
            let is_last = slr.is_sysline_last(&syslinep);
            items.push(sysline_item(&syslinep));
            if is_last {
                return format!("CRD\tOK\t{}\t{}\t{}", sc(slr), items.len(), items.join("\t"));
            }
        }
        ResultS3::Done => return format!("CRD\tOK\t{}\t0\t", sc(slr)),
        ResultS3::Err(_) => return "CRD\tErr".to_string(),
    }
    let mut syslinep_last_opt: Option<SyslineP> = None;
    let mut i: usize = 0;
    loop {
        match slr.find_sysline(fo1) {
            ResultS3::Found((fo, syslinep)) => {
                let syslinep_tmp = syslinep.clone();
                let is_last = slr.is_sysline_last(&syslinep);
                items.push(sysline_item(&syslinep));
                fo1 = fo;
                if is_last {
                    break;
                }
                if let Some(syslinep_last) = syslinep_last_opt {
                    let run = !plan.is_empty() && plan[i % plan.len()];
                    i += 1;
                    if run {
                        // SyslogProcessor::drop_data_try without the drop_block_last shortcut
                        let bo_first = (*syslinep_last).blockoffset_first();
                        if bo_first > 1 {
                            slr.drop_data(bo_first - 2);
                        }
                    }
                }
                syslinep_last_opt = Some(syslinep_tmp);
            }
            ResultS3::Done => break,
            ResultS3::Err(_) => return "CRD\tErr".to_string(),
        }
        if items.len() > 1_000_000 {
            return "CRD\tLOOP".to_string();
        }
    }
    format!("CRD\tOK\t{}\t{}\t{}", sc(slr), items.len(), items.join("\t"))
}

/// stages 2 and 3 of exec_syslogprocessor with the datetime window on the given reader
fn cached_window_driver(slr: &mut SyslineReader, spec: &str) -> String {
    use chrono::TimeZone;
    let mut it = spec.split(',');
    let bound = |s: &str| -> Option<chrono::DateTime<chrono::FixedOffset>> {
        match s.parse::<i64>() {
            Ok(v) => tz().timestamp_opt(v, 0).single(),
            Err(_) => None,
        }
    };
    let after = bound(it.next().unwrap_or("-"));
    let before = bound(it.next().unwrap_or("-"));
    let plan: Vec<bool> = it.next().unwrap_or("").chars().filter(|c| *c == '0' || *c == '1').map(|c| c == '1').collect();
    let mut items: Vec<String> = Vec::new();
    let mut fo1: FileOffset;
    match slr.find_sysline_between_datetime_filters(0, &after, &before) {
        ResultS3::Found((fo, syslinep)) => {
            fo1 = fo;
            let is_last = slr.is_sysline_last(&syslinep);
            items.push(sysline_item(&syslinep));
            if is_last {
                return format!("CRW\tOK\t{}\t{}\t{}", sc(slr), items.len(), items.join("\t"));
            }
        }
        ResultS3::Done => return format!("CRW\tOK\t{}\t0\t", sc(slr)),
        ResultS3::Err(_) => return "CRW\tErr".to_string(),
    }
    let mut syslinep_last_opt: Option<SyslineP> = None;
    let mut i: usize = 0;
    loop {
        match slr.find_sysline_between_datetime_filters(fo1, &after, &before) {
            ResultS3::Found((fo, syslinep)) => {
                let syslinep_tmp = syslinep.clone();
                let is_last = slr.is_sysline_last(&syslinep);
                items.push(sysline_item(&syslinep));
                fo1 = fo;
                if is_last {
                    break;
                }
                if let Some(syslinep_last) = syslinep_last_opt {
                    let run = !plan.is_empty() && plan[i % plan.len()];
                    i += 1;
                    if run {
                        let bo_first = (*syslinep_last).blockoffset_first();
                        if bo_first > 1 {
                            slr.drop_data(bo_first - 2);
                        }
                    }
                }
                syslinep_last_opt = Some(syslinep_tmp);
            }
            ResultS3::Done => break,
            ResultS3::Err(_) => return "CRW\tErr".to_string(),
        }
        if items.len() > 1_000_000 {
            return "CRW\tLOOP".to_string();
        }
    }
    format!("CRW\tOK\t{}\t{}\t{}", sc(slr), items.len(), items.join("\t"))
}

fn main() {
    let dir = std::env::args().nth(1).expect("usage: c02 <scratch dir>");
    std::panic::set_hook(Box::new(|_| {}));
    let mut nfile: usize = 0;
    let mut path: FPath = String::new();
    let mut bs: u64 = 0;
    let mut lr: Option<LineReader> = None;
    let mut slr: Option<SyslineReader> = None;
    let mut member: String = String::new();
    for line in stdin_lines() {
        let mut it = line.split('\t');
        let cmd = it.next().unwrap_or("");
        let arg = it.next().unwrap_or("");
        match cmd {
            "F" => {
                lr = None;
                slr = None;
                nfile += 1;
                path = format!("{}/c{:06}.log{}", dir, nfile % 64, ext());
                std::fs::write(&path, unhex(arg)).expect("write");
                if KIND.load(std::sync::atomic::Ordering::Relaxed) == 5 {
                    // a tar member: <archive>|<member path> (command M before F)
                    path = format!("{}|{}", path, member);
                }
                println!("F\tOK");
            }
            "M" => {
                member = arg.to_string();
                println!("M\tOK");
            }
            "K" => {
                let k = match arg {
                    "gz" => 1,
                    "bz2" => 2,
                    "lz4" => 3,
                    "xz" => 4,
                    "tar" => 5,
                    _ => 0,
                };
                KIND.store(k, std::sync::atomic::Ordering::Relaxed);
                println!("K\tOK");
            }
            "B" => {
                bs = arg.parse().unwrap_or(0);
                lr = None;
                slr = None;
                let p = path.clone();
                let r = catch_unwind(AssertUnwindSafe(|| {
                    (LineReader::new(p.clone(), ft(), bs), SyslineReader::new(p.clone(), ft(), bs, tz()))
                }));
                match r {
                    Ok((Ok(a), Ok(b))) => {
                        lr = Some(a);
                        slr = Some(b);
                        println!("B\tOK");
                    }
                    Ok(_) => println!("B\tErr"),
                    Err(_) => println!("B\tPANIC"),
                }
            }
            "L" => {
                let fo: FileOffset = arg.parse().unwrap_or(0);
                let out = match lr.as_mut() {
                    None => "L\tNoReader".to_string(),
                    Some(r) => match catch_unwind(AssertUnwindSafe(|| r.find_line(fo))) {
                        Ok(ResultS3::Found((fo_next, linep))) => format!(
                            "L\tFound\t{}\t{}\t{}\t{}\t{}\t{}\t{}",
                            fo_next,
                            linep.fileoffset_begin(),
                            linep.fileoffset_end(),
                            linep.count_lineparts(),
                            linep.blockoffset_first(),
                            linep.blockoffset_last(),
                            hex(&line_bytes(&linep))
                        ),
                        Ok(ResultS3::Done) => "L\tDone".to_string(),
                        Ok(ResultS3::Err(_)) => "L\tErr".to_string(),
                        Err(_) => "L\tPANIC".to_string(),
                    },
                };
                if out == "L\tPANIC" {
                    lr = LineReader::new(path.clone(), ft(), bs).ok();
                }
                println!("{}", out);
            }
            "S" => {
                let fo: FileOffset = arg.parse().unwrap_or(0);
                let out = match slr.as_mut() {
                    None => "S\tNoReader".to_string(),
                    Some(r) => match catch_unwind(AssertUnwindSafe(|| r.find_sysline(fo))) {
                        Ok(ResultS3::Found((fo_next, s))) => format!(
                            "S\tFound\t{}\t{}\t{}\t{}\t{}\t{}",
                            fo_next,
                            s.fileoffset_begin(),
                            s.fileoffset_end(),
                            s.count_lines(),
                            s.dt().timestamp(),
                            hex(&s.verif_bytes())
                        ),
                        Ok(ResultS3::Done) => "S\tDone".to_string(),
                        Ok(ResultS3::Err(_)) => "S\tErr".to_string(),
                        Err(_) => "S\tPANIC".to_string(),
                    },
                };
                if out == "S\tPANIC" {
                    slr = SyslineReader::new(path.clone(), ft(), bs, tz()).ok();
                }
                println!("{}", out);
            }
            "CL" | "CLB" | "CLE" => {
                let out = match lr.as_mut() {
                    None => format!("{}\tNoReader", cmd),
                    Some(r) => {
                        let res = catch_unwind(AssertUnwindSafe(|| match cmd {
                            "CL" => {
                                let fo: FileOffset = arg.parse().unwrap_or(0);
                                match r.find_line(fo) {
                                    ResultS3::Found((n, lp)) => format!("CL\tFound\t{}\t{}", line_fields(n, &lp), lc(r)),
                                    ResultS3::Done => format!("CL\tDone\t{}", lc(r)),
                                    ResultS3::Err(_) => "CL\tErr".to_string(),
                                }
                            }
                            "CLB" => {
                                let fo: FileOffset = arg.parse().unwrap_or(0);
                                let (res, part) = r.find_line_in_block(fo);
                                let ps = match part {
                                    None => "-".to_string(),
                                    Some(line) => {
                                        let lp = LineP::new(line);
                                        format!("P,{},{},{}", lp.fileoffset_begin(), lp.fileoffset_end(), hex(&line_bytes(&lp)))
                                    }
                                };
                                match res {
                                    ResultS3::Found((n, lp)) => format!("CLB\tFound\t{}\t{}\t{}", line_fields(n, &lp), ps, lc(r)),
                                    ResultS3::Done => format!("CLB\tDone\t{}\t{}", ps, lc(r)),
                                    ResultS3::Err(_) => "CLB\tErr".to_string(),
                                }
                            }
                            _ => {
                                if arg == "1" {
                                    r.LRU_cache_enable();
                                } else {
                                    r.LRU_cache_disable();
                                }
                                format!("CLE\tOK\t{}", lc(r))
                            }
                        }));
                        match res {
                            Ok(s) => s,
                            Err(_) => format!("{}\tPANIC", cmd),
                        }
                    }
                };
                if out.ends_with("PANIC") {
                    lr = LineReader::new(path.clone(), ft(), bs).ok();
                }
                println!("{}", out);
            }
            "CS" | "CSB" | "CSE" | "CDD" | "CDS" | "CRD" | "CRW" | "CXD" => {
                let out = match slr.as_mut() {
                    None => format!("{}\tNoReader", cmd),
                    Some(r) => {
                        let res = catch_unwind(AssertUnwindSafe(|| match cmd {
                            "CS" => {
                                let fo: FileOffset = arg.parse().unwrap_or(0);
                                match r.find_sysline(fo) {
                                    ResultS3::Found((n, sp)) => format!("CS\tFound\t{}\t{}", sysline_fields(n, &sp), sc(r)),
                                    ResultS3::Done => format!("CS\tDone\t{}", sc(r)),
                                    ResultS3::Err(_) => "CS\tErr".to_string(),
                                }
                            }
                            "CSB" => {
                                let fo: FileOffset = arg.parse().unwrap_or(0);
                                let (res, pf) = r.find_sysline_in_block(fo);
                                match res {
                                    ResultS3::Found((n, sp)) => {
                                        format!("CSB\tFound\t{}\t{}\t{}", sysline_fields(n, &sp), pf as u8, sc(r))
                                    }
                                    ResultS3::Done => format!("CSB\tDone\t{}\t{}", pf as u8, sc(r)),
                                    ResultS3::Err(_) => "CSB\tErr".to_string(),
                                }
                            }
                            "CSE" => {
                                if arg == "1" {
                                    r.LRU_cache_enable();
                                } else {
                                    r.LRU_cache_disable();
                                }
                                format!("CSE\tOK\t{}", sc(r))
                            }
                            "CXD" => {
                                r.verif_disable_drop_data();
                                format!("CXD\tOK\t{}", sc(r))
                            }
                            "CDD" => {
                                r.drop_data(arg.parse().unwrap_or(0));
                                format!("CDD\tOK\t{}", sc(r))
                            }
                            "CDS" => {
                                let fo: FileOffset = arg.parse().unwrap_or(0);
                                r.drop_sysline(&fo);
                                format!("CDS\tOK\t{}", sc(r))
                            }
                            "CRW" => cached_window_driver(r, arg),
                            _ => {
                                let plan: Vec<bool> = arg.chars().filter(|c| *c == '0' || *c == '1').map(|c| c == '1').collect();
                                cached_driver(r, &plan)
                            }
                        }));
                        match res {
                            Ok(s) => s,
                            Err(_) => format!("{}\tPANIC", cmd),
                        }
                    }
                };
                if out.ends_with("PANIC") {
                    slr = SyslineReader::new(path.clone(), ft(), bs, tz()).ok();
                }
                println!("{}", out);
            }
            "T" => {
                let p = format!("{}/oracle.log", dir);
                std::fs::write(&p, unhex(arg)).expect("write");
                let out = catch_unwind(AssertUnwindSafe(|| {
                    match SyslineReader::new(p.clone(), FT_PLAIN, 0x10000, tz()) {
                        Ok(mut r) => match r.find_sysline(0) {
                            ResultS3::Found((_, sp)) => format!("T\t{}", sp.dt().timestamp()),
                            _ => "T\tNone".to_string(),
                        },
                        Err(_) => "T\tNone".to_string(),
                    }
                }));
                println!("{}", out.unwrap_or_else(|_| "T\tPANIC".to_string()));
            }
            "R" => {
                let p = path.clone();
                match catch_unwind(AssertUnwindSafe(|| raw_driver(&p, bs))) {
                    Ok(s) => println!("{}", s),
                    Err(_) => println!("R\tPANIC"),
                }
            }
            "DY" => {
                let p = path.clone();
                let a = arg.to_string();
                match catch_unwind(AssertUnwindSafe(|| stage_driver_year(&p, bs, &a))) {
                    Ok(s) => println!("{}", s),
                    Err(_) => println!("DY\tPANIC"),
                }
            }
            "D" => {
                let p = path.clone();
                match catch_unwind(AssertUnwindSafe(|| stage_driver(&p, bs))) {
                    Ok(s) => println!("{}", s),
                    Err(_) => println!("D\tPANIC"),
                }
            }
            _ => println!("?"),
        }
    }
}
