//! C09: the text/binary form choice of `--journal-output export`.
//! in : <hex data object `KEY=VALUE`>
//! out: 1 | 0   (`export_data_is_text`)   or PANIC
use s4lib::readers::journalreader::export_data_is_text;
use s4verif::*;

fn main() {
    for line in stdin_lines() {
        let data = unhex(line.trim());
        match std::panic::catch_unwind(|| export_data_is_text(&data)) {
            Ok(true) => println!("1"),
            Ok(false) => println!("0"),
            Err(_) => println!("PANIC"),
        }
    }
}
