//! C09: the text/binary form choice of `--journal-output export`, and Rust's own f64 arithmetic and
//! float formatting for the monotonic field of `short-monotonic`.
//! in : <hex data object `KEY=VALUE`>
//! out: 1 | 0   (`export_data_is_text`)   or PANIC
//! in : M <microseconds as u64>
//! out: hex of `format!("{:>12.6}", mu as f64 / 1000000.0)`  (the expression of `next_short`; divisor, width and
//!      precision are scraped from the source by tools/gen/journal.py and compared with these by checks/c09_render.py)
use s4lib::readers::journalreader::export_data_is_text;
use s4verif::*;

fn main() {
    for line in stdin_lines() {
        let l = line.trim();
        if let Some(rest) = l.strip_prefix("M ") {
            match rest.trim().parse::<u64>() {
                Ok(mu) => {
                    let mud = mu as f64 / 1000000.0;
                    println!("{}", hex(format!("{:>12.6}", mud).as_bytes()));
                }
                Err(_) => println!("BAD"),
            }
            continue;
        }
        let data = unhex(l);
        match std::panic::catch_unwind(|| export_data_is_text(&data)) {
            Ok(true) => println!("1"),
            Ok(false) => println!("0"),
            Err(_) => println!("PANIC"),
        }
    }
}
