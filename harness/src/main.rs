//! s4verif — in-process side of the correspondence checks.
//! Each subcommand reads cases on stdin (one per line, TAB separated, byte
//! strings in hex) and writes one canonical result line per case on stdout.
//! Case generation, the Coq side and the comparison live in /verif/checks.

mod util;
mod c16;

fn main() {
    let args: Vec<String> = std::env::args().collect();
    if args.len() < 2 {
        eprintln!("usage: s4verif <subcommand>");
        std::process::exit(2);
    }
    match args[1].as_str() {
        "c16" => c16::run(),
        other => {
            eprintln!("unknown subcommand {other}");
            std::process::exit(2);
        }
    }
}
